#!/venv/bin/python
# -*- coding: utf-8 -*-
"""Mechanical mutation campaign (development aid, not a registered check).

For one property: small syntactic changes (sign, conjugation, comparison,
off-by-one, index order, constants) are made, one at a time, inside the
functions the property is anchored in.  Every mutant lives in its own scratch
copy of the repository OUTSIDE /repo and /verif; the property's quick check
runs against the copy (VERIF_REPO, VERIF_OUT).  Mutants the check lets pass
are then run through the repository's own test suite in the copy: a mutant
that passes both is a SURVIVOR and has to be looked at by hand (equivalent
change, change outside what the property states, or a gap of the check).

usage: tools/mutation.py <ID> [--max N] [--jobs J] [--seed S] [--out DIR]
                         [--no-suite]
Writes <out>/<ID>.json (default out: /tmp/mutation) and prints a summary.
"""
import ast
import io
import json
import os
import random
import re
import shutil
import subprocess
import sys
import tokenize
import xml.etree.ElementTree as ET
from multiprocessing import Pool

VERIF = os.path.dirname(os.path.dirname(os.path.abspath(__file__)))
REPO = "/repo"
BASELINE = "/root/.vp/BASELINE.json"


def anchors(pid):
    for line in open(os.path.join(VERIF, "properties.jsonl")):
        d = json.loads(line)
        if d["id"] == pid:
            a = d["anchors"]
            where = [x["where"] for x in a.get("state", []) +
                     a.get("mechanism", [])]
            return a["files"], where
    raise SystemExit("unknown property " + pid)


def targets(pid, focused=True):
    """{relative file: set of function names or None (= whole file)}"""
    files, where = anchors(pid)
    out = {}
    base = {os.path.basename(f): f for f in files}
    for w in where:
        for m in re.finditer(r"([\w/]+\.py)(?::\s*([^;()]+))?", w):
            f, fns = m.group(1), m.group(2)
            if "/" not in f:
                f = base.get(f)
                if f is None:
                    continue
            if not os.path.exists(os.path.join(REPO, f)):
                continue
            names = set()
            if fns:
                for n in re.split(r"[/,\s]+", fns):
                    n = n.strip().split(".")[-1].rstrip("*")
                    if re.match(r"^[A-Za-z_]\w*$", n):
                        names.add(n)
            if names:
                if out.get(f, set()) is not None:
                    out.setdefault(f, set()).update(names)
            else:
                out.setdefault(f, set())
    if not focused:
        for f in files:
            if os.path.exists(os.path.join(REPO, f)) and f.endswith(".py"):
                out.setdefault(f, set())
    return out


def code_lines(path, names):
    """line numbers (1-based) of code inside the named functions (prefix
    match), without docstrings and comment-only lines"""
    src = open(path).read()
    tree = ast.parse(src)
    keep = set()
    doc = set()
    for node in ast.walk(tree):
        if isinstance(node, (ast.FunctionDef, ast.ClassDef, ast.Module)):
            b = getattr(node, "body", [])
            if b and isinstance(b[0], ast.Expr) and isinstance(
                    getattr(b[0], "value", None), ast.Constant) and \
                    isinstance(b[0].value.value, str):
                doc.update(range(b[0].lineno, b[0].end_lineno + 1))
        if isinstance(node, ast.FunctionDef):
            if not names or any(node.name == n or node.name.startswith(n)
                                for n in names):
                keep.update(range(node.lineno + 1, node.end_lineno + 1))
    comment_only = set()
    try:
        for tok in tokenize.generate_tokens(io.StringIO(src).readline):
            if tok.type == tokenize.COMMENT and \
                    tok.line.strip().startswith("#"):
                comment_only.add(tok.start[0])
    except tokenize.TokenError:
        pass
    return sorted(keep - doc - comment_only), src.split("\n")


OPS = [
    ("plus->minus", re.compile(r"(?<=[\w\)\]])(\s*)\+(\s*)(?=[\w\(])"),
     lambda m: m.group(1) + "-" + m.group(2)),
    ("minus->plus", re.compile(r"(?<=[\w\)\]])(\s*)-(\s*)(?=[\w\(])"),
     lambda m: m.group(1) + "+" + m.group(2)),
    ("drop-conj", re.compile(r"numpy\.conj\("), lambda m: "("),
    ("drop-transpose", re.compile(r"numpy\.transpose\("), lambda m: "("),
    ("lt->le", re.compile(r"(?<![<>=!])<(?![<=])"), lambda m: "<="),
    ("le->lt", re.compile(r"<="), lambda m: "<"),
    ("gt->ge", re.compile(r"(?<![<>=!\-])>(?![>=])"), lambda m: ">="),
    ("ge->gt", re.compile(r">="), lambda m: ">"),
    ("eq->ne", re.compile(r"=="), lambda m: "!="),
    ("ne->eq", re.compile(r"!="), lambda m: "=="),
    ("range-end-1", re.compile(r"range\(([^()]+)\)"),
     lambda m: "range(" + m.group(1) + "-1)"),
    ("range-start+1", re.compile(r"range\(\s*([\w\.]+)\s*,"),
     lambda m: "range(" + m.group(1) + "+1,"),
    ("swap-index", re.compile(r"\[(\w+)\s*,\s*(\w+)\]"),
     lambda m: "[" + m.group(2) + "," + m.group(1) + "]"),
    ("2.0->1.0", re.compile(r"(?<![\w\.])2\.0(?![\w\.])"), lambda m: "1.0"),
    ("0.5->1.0", re.compile(r"(?<![\w\.])0\.5(?![\w\.])"), lambda m: "1.0"),
    ("1j->-1j", re.compile(r"(?<![\w\.\-])1(\.0)?j"), lambda m: "(-1j)"),
    ("mul->div", re.compile(r"(?<=[\w\)\]])(\s*)\*(\s*)(?=[\w\(])(?!\*)"),
     lambda m: m.group(1) + "/" + m.group(2)),
    ("drop-not", re.compile(r"\bnot\s+"), lambda m: ""),
    ("and->or", re.compile(r"\band\b"), lambda m: "or"),
    ("drop-copy", re.compile(r"\.copy\(\)"), lambda m: ""),
    ("+1->+0", re.compile(r"\+\s*1(?![\w\.])"), lambda m: "+0"),
    ("-1->-0", re.compile(r"-\s*1(?![\w\.])"), lambda m: "-0"),
]


def mutants_of(pid, rng, per_op=3):
    out = []
    for rel, names in targets(pid).items():
        path = os.path.join(REPO, rel)
        try:
            lines_idx, lines = code_lines(path, names)
        except SyntaxError:
            continue
        for ln in lines_idx:
            text = lines[ln - 1]
            code = text.split("#")[0]
            if not code.strip() or code.strip().startswith(
                    ("print", "raise", "import", "from ", '"""', "'''",
                     "def ", "class ", "@")):
                continue
            for name, rx, rep in OPS:
                ms = list(rx.finditer(code))
                if not ms:
                    continue
                m = rng.choice(ms)
                new = code[:m.start()] + rep(m) + code[m.end():]
                if new == code:
                    continue
                out.append(dict(file=rel, line=ln, op=name,
                                old=text.rstrip(), new=new.rstrip()))
    # stratified sample: at most per_op per operator and file
    rng.shuffle(out)
    seen = {}
    sel = []
    for mu in out:
        k = (mu["file"], mu["op"])
        if seen.get(k, 0) < per_op:
            seen[k] = seen.get(k, 0) + 1
            sel.append(mu)
    return sel


def others_for(rel, pid):
    out = []
    for line in open(os.path.join(VERIF, "properties.jsonl")):
        d = json.loads(line)
        if d["id"] != pid and rel in d["anchors"]["files"]:
            out.append(d["id"])
    return out


def stable_tests():
    b = json.load(open(BASELINE))
    return set(b["stable_pass"])


def run_one(job):
    pid, k, mu, out, no_suite = job
    d = os.path.join(out, "%s_%03d" % (pid, k))
    res = dict(mu, id=k)
    try:
        shutil.rmtree(d, ignore_errors=True)
        os.makedirs(d)
        subprocess.check_call(
            ["rsync", "-a", "--exclude", ".git", "--exclude", "docs",
             "--exclude", "tutorials", "--exclude", "result_images",
             "--exclude", "__pycache__", REPO + "/", d + "/repo/"])
        fp = os.path.join(d, "repo", mu["file"])
        lines = open(fp).read().split("\n")
        if lines[mu["line"] - 1].rstrip() != mu["old"]:
            res["status"] = "STALE"
            return res
        if mu["op"] != "calibration":
            lines[mu["line"] - 1] = mu["new"]
        src = "\n".join(lines)
        try:
            compile(src, fp, "exec")
        except SyntaxError:
            res["status"] = "DOES-NOT-COMPILE"
            return res
        open(fp, "w").write(src)
        env = dict(os.environ, VERIF_REPO=os.path.join(d, "repo"),
                   VERIF_OUT=os.path.join(d, "out"), OMP_NUM_THREADS="1",
                   OPENBLAS_NUM_THREADS="1", MKL_NUM_THREADS="1",
                   PYTHONPATH=os.path.join(d, "repo"), VERIF_SEED="1")
        p = subprocess.run([os.path.join(VERIF, "bin", "check"), pid,
                            "--tier", "quick"], env=env,
                           stdout=subprocess.PIPE, stderr=subprocess.STDOUT,
                           timeout=1500)
        txt = p.stdout.decode(errors="replace")
        res["check_rc"] = p.returncode
        res["check_tail"] = txt.strip().split("\n")[-1][:200]
        if p.returncode == 1:
            m = re.search(r"violations by \(clause \| key\): (\{.*\})", txt)
            res["clauses"] = m.group(1)[:300] if m else ""
            res["status"] = "KILLED-BY-CHECK"
            return res
        if p.returncode != 0:
            res["status"] = "CHECK-MACHINERY-FAILURE"
            res["check_out"] = txt[-800:]
            return res
        if no_suite:
            res["status"] = "PASSES-CHECK"
            return res
        jx = os.path.join(d, "junit.xml")
        p = subprocess.run(
            ["/venv/bin/python", "-m", "pytest", "-q", "-p",
             "no:cacheprovider", "--timeout=900",
             "--continue-on-collection-errors", "--junitxml=" + jx,
             # (in a copy tests/matplotlib/tests shadows the tests package)
             "--ignore=tests/matplotlib"],
            cwd=os.path.join(d, "repo"), env=env, stdout=subprocess.PIPE,
            stderr=subprocess.STDOUT, timeout=3000)
        passed = set()
        try:
            for tc in ET.parse(jx).getroot().iter("testcase"):
                if not any(ch.tag in ("failure", "error", "skipped")
                           for ch in tc):
                    passed.add("%s::%s" % (tc.get("classname"),
                                           tc.get("name")))
        except Exception as e:
            res["status"] = "SUITE-UNREADABLE"
            res["suite_tail"] = p.stdout.decode(errors="replace")[-400:]
            return res
        missing = sorted(stable_tests() - passed)
        res["suite_missing"] = missing[:6]
        res["status"] = "KILLED-BY-SUITE" if missing else "SURVIVOR"
        if missing or mu["op"] == "calibration":
            return res
        # a survivor of this property's check: do the checks of the other
        # properties anchored in the same file see it?
        for other in others_for(mu["file"], pid):
            p = subprocess.run([os.path.join(VERIF, "bin", "check"), other,
                                "--tier", "quick"], env=env,
                               stdout=subprocess.PIPE,
                               stderr=subprocess.STDOUT, timeout=1500)
            if p.returncode == 1:
                res["status"] = "KILLED-BY-OTHER-CHECK"
                res["other"] = other
                break
        return res
    except subprocess.TimeoutExpired:
        res["status"] = "TIMEOUT"
        return res
    except Exception as e:
        res["status"] = "TOOL-ERROR"
        res["error"] = repr(e)[:300]
        return res
    finally:
        shutil.rmtree(d, ignore_errors=True)


def main():
    args = sys.argv[1:]
    pid = args[0]
    opt = dict(max=24, jobs=8, seed=1, out="/tmp/mutation", no_suite=False)
    i = 1
    while i < len(args):
        if args[i] == "--no-suite":
            opt["no_suite"] = True
            i += 1
        else:
            k = args[i].lstrip("-")
            opt[k] = type(opt[k])(args[i + 1])
            i += 2
    rng = random.Random(opt["seed"])
    mus = mutants_of(pid, rng)
    rng.shuffle(mus)
    mus = mus[:opt["max"]]
    os.makedirs(opt["out"], exist_ok=True)
    # job 0: the unchanged tree must come out as SURVIVOR (check passes,
    # all stable tests pass in the copy), otherwise nothing is believed
    if mus and not opt["no_suite"]:
        mus = [dict(mus[0], op="calibration", new=mus[0]["old"])] + mus
    jobs = [(pid, k, mu, opt["out"], opt["no_suite"])
            for k, mu in enumerate(mus)]
    with Pool(opt["jobs"]) as pool:
        results = pool.map(run_one, jobs, chunksize=1)
    json.dump(results, open(os.path.join(opt["out"], pid + ".json"), "w"),
              indent=1)
    if results and results[0]["op"] == "calibration":
        if results[0]["status"] != "SURVIVOR":
            print(pid, "CALIBRATION FAILED:", results[0]["status"],
                  results[0].get("suite_missing"), results[0].get(
                      "check_tail"))
        results = results[1:]
    tally = {}
    for r in results:
        tally[r["status"]] = tally.get(r["status"], 0) + 1
    print(pid, json.dumps(tally, sort_keys=True))
    for r in results:
        if r["status"] == "KILLED-BY-OTHER-CHECK":
            print("  (%s:%d [%s] killed by %s)" % (
                r["file"], r["line"], r["op"], r["other"]))
        if r["status"] in ("SURVIVOR", "PASSES-CHECK",
                           "CHECK-MACHINERY-FAILURE", "TOOL-ERROR",
                           "TIMEOUT", "SUITE-UNREADABLE"):
            print("  %-9s %s:%d [%s]\n      - %s\n      + %s" % (
                r["status"], r["file"], r["line"], r["op"],
                r["old"].strip()[:110], r["new"].strip()[:110]))


if __name__ == "__main__":
    main()
