# -*- coding: utf-8 -*-
"""Shared helpers for the relaxation-tensor checks (C01, C07, C06, C15)."""
import os
import json
import types
import tempfile
import shutil
import itertools

import numpy

from .common import MachineryFailure


def herm_defect(R):
    """max |conj R[a,b,c,d] - R[b,a,d,c]| (all time indices)"""
    R = numpy.asarray(R)
    if R.ndim == 5:
        return float(numpy.abs(numpy.conj(R) -
                               R.transpose(0, 2, 1, 4, 3)).max())
    return float(numpy.abs(numpy.conj(R) - R.transpose(1, 0, 3, 2)).max())


def trace_defect(R):
    """max |sum_a R[a,a,c,d]|"""
    R = numpy.asarray(R)
    if R.ndim == 5:
        return float(numpy.abs(numpy.einsum('taacd->tcd', R)).max())
    return float(numpy.abs(numpy.einsum('aacd->cd', R)).max())


def sec_keep_mask(N):
    m = numpy.zeros((N, N, N, N), dtype=bool)
    for a, b, c, d in itertools.product(range(N), repeat=4):
        if (a == b and c == d) or (a == c and b == d):
            m[a, b, c, d] = True
    return m


def load_tensor_tables(ck, dim, cfg):
    """Runs TLC on TensorAlgebra with `cfg` and returns
    {(ki,kj,li,lj,imag): R as complex ndarray}"""
    tmp = tempfile.mkdtemp(prefix="tens_")
    try:
        ck.tlc("TensorAlgebra", cfg, workers=16, env={"TABLE_DIR": tmp},
               timeout=3000)
        out = {}
        for f in os.listdir(tmp):
            if not f.startswith("R%d_" % dim):
                continue
            row = json.load(open(os.path.join(tmp, f)))
            r = numpy.array(row["r"], dtype=float)       # [a][b][c][d][re,im]
            R = r[..., 0] + 1j * r[..., 1]
            out[(row["k"][0] - 1, row["k"][1] - 1, row["l"][0] - 1,
                 row["l"][1] - 1, bool(row["lim"]))] = R
    finally:
        shutil.rmtree(tmp, ignore_errors=True)
    want = dim * dim * dim * dim * 2
    if len(out) != want:
        raise MachineryFailure("tensor tables: %d of %d" % (len(out), want))
    return out


def unit(N, i, j, val=1.0, dtype=float):
    m = numpy.zeros((N, N), dtype=dtype)
    m[i, j] = val
    return m


def fake_redfield(N, Nb, as_operators=False, Nt=None):
    """A stand-in for `self` of the Redfield tensor classes, sufficient for
    _convert_operators_2_tensor and apply (they read only these fields)."""
    f = types.SimpleNamespace()
    f.Hamiltonian = types.SimpleNamespace(data=numpy.zeros((N, N)), dim=N)
    f.SystemBathInteraction = types.SimpleNamespace(N=Nb)
    f.as_operators = as_operators
    if Nt is not None:
        f.Nt = Nt
    return f


class Holder:
    """minimal operator-like object for tensor.apply(oper)"""

    def __init__(self, data):
        self.data = data


def build_aggregate(qr, rng, N, J=None, energies=None, reorg=None,
                    cortime=None, T=300.0, Nt=300, dt=2.0, mult=1,
                    ftype="OverdampedBrownian", share=None):
    """Aggregate of N two-level molecules with overdamped Brownian baths.
    `share` = list of bath indices per site: sites with the same index get
    the SAME CorrelationFunction object (e.g. [0, 1, 0])."""
    ta = qr.TimeAxis(0.0, Nt, dt)
    if energies is None:
        energies = 12000.0 + rng.uniform(-250, 250, size=N)
    if reorg is None:
        reorg = rng.uniform(10, 60, size=N)
    if cortime is None:
        cortime = rng.uniform(40, 150, size=N)
    with qr.energy_units("1/cm"):
        mols = []
        shared = {}
        for i in range(N):
            m = qr.Molecule([0.0, float(energies[i])])
            k = share[i] if share is not None else i
            if k not in shared:
                shared[k] = qr.CorrelationFunction(ta, dict(
                    ftype=ftype, reorg=float(reorg[k]),
                    cortime=float(cortime[k]), T=T, matsubara=20))
            cf = shared[k]
            m.set_transition_environment((0, 1), cf)
            d = rng.randn(3)
            m.set_dipole(0, 1, list(d / numpy.linalg.norm(d)))
            mols.append(m)
        ag = qr.Aggregate(mols)
        for i in range(N):
            for j in range(i + 1, N):
                jj = J[i][j] if J is not None else float(rng.uniform(-120, 120))
                ag.set_resonance_coupling(i, j, jj)
    ag.build(mult=mult)
    return ag, ta
