# -*- coding: utf-8 -*-
"""Registry of public builder / calculator calls used as 'library calls' by
the history checks (C05: no call changes the caller's units; C04/C15: calls
made inside contexts / on shared objects).

Every entry is a zero-argument closure that is self-contained (creates the
objects it needs).  Energies are written in cm^-1 in this file and converted
to the units that are current at call time with factors taken from
scipy.constants (independently of quantarhei/core/units.py), so a call makes
physical sense under every units context.
"""
import math
import scipy.constants as const

CM2INT = 2.0 * math.pi * const.c * 1.0e-13      # cm^-1 -> rad/fs
FACT = {
    "int": 1.0, "1/fs": 1.0,
    "1/cm": CM2INT,
    "THz": 2.0 * math.pi * 1.0e-3,
    "eV": 1.0e-15 * const.e / const.hbar,
    "meV": 1.0e-18 * const.e / const.hbar,
    "J": 1.0e-15 / const.hbar,
    "SI": 1.0e-15 / const.hbar,
    "Ha": const.physical_constants["Hartree energy"][0] * 1.0e-15 / const.hbar,
    "a.u.": const.physical_constants["Hartree energy"][0] * 1.0e-15 / const.hbar,
}
LFACT = {"int": 1.0, "A": 1.0, "nm": 10.0, "m": 1.0e10, "SI": 1.0e10,
         "Bohr": const.physical_constants["Bohr radius"][0] * 1.0e10,
         "a.u.": const.physical_constants["Bohr radius"][0] * 1.0e10}


def to_internal(v, units):
    """value given in `units` -> internal (rad/fs); reference conversion"""
    if units == "nm":
        return 0.0 if v == 0 else 1.0e7 / v * CM2INT
    return v * FACT[units]


def from_internal(e, units):
    if units == "nm":
        return 0.0 if e == 0 else 1.0e7 / (e / CM2INT)
    return e / FACT[units]


def build_registry():
    import numpy
    import quantarhei as qr
    from quantarhei.core.managers import Manager

    man = Manager()

    def E(x_cm):
        """x_cm (cm^-1) expressed in the currently active energy units"""
        return from_internal(x_cm * CM2INT, man.get_current_units("energy"))

    def cf(ta, reorg=30.0, cortime=100.0, T=300.0,
           ftype="OverdampedBrownian"):
        p = dict(ftype=ftype, reorg=E(reorg), cortime=cortime, T=T,
                 matsubara=10)
        return qr.CorrelationFunction(ta, p)

    def dimer(mult=1, bath=True, J=80.0):
        ta = qr.TimeAxis(0.0, 200, 2.0)
        m1 = qr.Molecule([0.0, E(12000.0)])
        m2 = qr.Molecule([0.0, E(12250.0)])
        m1.set_dipole(0, 1, [1.0, 0.2, 0.0])
        m2.set_dipole(0, 1, [0.3, 1.0, 0.0])
        if bath:
            c = cf(ta)
            m1.set_transition_environment((0, 1), c)
            m2.set_transition_environment((0, 1), c)
        ag = qr.Aggregate([m1, m2])
        ag.set_resonance_coupling(0, 1, E(J))
        ag.build(mult=mult)
        return ag, ta

    reg = {}

    def r(fn):
        reg[fn.__name__] = fn
        return fn

    @r
    def molecule_create_get_set():
        m = qr.Molecule([0.0, E(12000.0)])
        m.set_energy(1, E(12100.0))
        return m.get_energy(1)

    @r
    def mode_create():
        m = qr.Molecule([0.0, E(12000.0)])
        mod = qr.Mode(E(300.0))
        m.add_Mode(mod)
        mod.set_nmax(0, 2)
        mod.set_nmax(1, 2)
        mod.set_HR(1, 0.1)
        return mod.get_energy(1, no_conversion=False)

    @r
    def molecule_hamiltonian():
        m = qr.Molecule([0.0, E(12000.0)])
        mod = qr.Mode(E(300.0))
        m.add_Mode(mod)
        mod.set_nmax(0, 2)
        mod.set_nmax(1, 2)
        mod.set_HR(1, 0.1)
        return m.get_Hamiltonian().data.copy()

    @r
    def aggregate_build():
        ag, ta = dimer(bath=False)
        return ag.get_Hamiltonian().data.copy()

    @r
    def aggregate_build_mult2():
        ag, ta = dimer(mult=2, bath=True)
        return ag.get_Hamiltonian().data.copy()

    @r
    def aggregate_coupling_get():
        ag, ta = dimer(bath=False)
        return ag.get_resonance_coupling(0, 1)

    @r
    def aggregate_dipole_coupling():
        m1 = qr.Molecule([0.0, E(12000.0)])
        m2 = qr.Molecule([0.0, E(12250.0)])
        m1.set_dipole(0, 1, [2.0, 0.0, 0.0])
        m2.set_dipole(0, 1, [0.0, 2.0, 1.0])
        m1.position = [0.0, 0.0, 0.0]
        m2.position = [5.0, 5.0, 0.0]
        ag = qr.Aggregate([m1, m2])
        ag.set_coupling_by_dipole_dipole()
        ag.build()
        return ag.get_resonance_coupling(0, 1)

    @r
    def hamiltonian_rwa():
        ag, ta = dimer(bath=False)
        H = ag.get_Hamiltonian()
        H.set_rwa([0, 1])
        return H.get_RWA_skeleton()

    @r
    def redfield_tensor():
        ag, ta = dimer()
        RT, ham = ag.get_RelaxationTensor(ta,
                                          relaxation_theory="standard_Redfield")
        return RT.data.copy()

    @r
    def redfield_tensor_td_secular():
        ag, ta = dimer()
        RT, ham = ag.get_RelaxationTensor(
            ta, relaxation_theory="standard_Redfield", time_dependent=True,
            secular_relaxation=True)
        return RT.data.copy()

    @r
    def foerster_tensor():
        ag, ta = dimer()
        RT, ham = ag.get_RelaxationTensor(ta,
                                          relaxation_theory="standard_Foerster")
        return RT.data.copy()

    @r
    def redfield_rates():
        ag, ta = dimer()
        from quantarhei.qm import RedfieldRateMatrix
        return RedfieldRateMatrix(ag.get_Hamiltonian(),
                                  ag.get_SystemBathInteraction()).data.copy()

    @r
    def corfce_add_and_reorg():
        ta = qr.TimeAxis(0.0, 200, 2.0)
        a = cf(ta, 30.0, 100.0)
        b = cf(ta, 20.0, 50.0, ftype="OverdampedBrownian-HighTemperature")
        c = a + b
        return c.get_reorganization_energy()

    @r
    def corfce_measure_and_ft():
        ta = qr.TimeAxis(0.0, 400, 2.0)
        a = cf(ta, 30.0, 100.0)
        a.measure_reorganization_energy()
        return a.get_FTCorrelationFunction().data[:3].copy()

    @r
    def spectral_density():
        ta = qr.TimeAxis(0.0, 400, 2.0)
        p = dict(ftype="OverdampedBrownian", reorg=E(30.0), cortime=100.0,
                 T=300.0)
        sd = qr.SpectralDensity(ta, p)
        c = sd.get_CorrelationFunction(temperature=300.0)
        f = sd.get_FTCorrelationFunction(temperature=300.0)
        return sd.get_reorganization_energy()

    @r
    def abs_spectrum():
        ag, ta = dimer()
        calc = qr.AbsSpectrumCalculator(ta, system=ag)
        calc.bootstrap(rwa=E(12100.0))
        s = calc.calculate()
        return s.data[:3].copy()

    @r
    def rdm_propagation():
        ag, ta = dimer()
        prop = ag.get_ReducedDensityMatrixPropagator(
            ta, relaxation_theory="standard_Redfield")
        rho = ag.get_DensityMatrix(condition_type="impulsive_excitation")
        rt = prop.propagate(rho)
        return rt.data[-1].copy()

    @r
    def thermal_states():
        ag, ta = dimer()
        a = ag.get_DensityMatrix(condition_type="thermal_excited_state",
                                 temperature=300.0)
        b = ag.get_thermal_ReducedDensityMatrix()
        return a.data.copy(), b.data.copy()

    @r
    def axes_and_ft():
        ta = qr.TimeAxis(0.0, 64, 1.0)
        fa = ta.get_FrequencyAxis()
        ta2 = fa.get_TimeAxis()
        f = qr.DFunction(ta, numpy.exp(-ta.data / 10.0))
        F = f.get_Fourier_transform()
        return F.data[:3].copy(), fa.data[:3].copy()

    @r
    def convert_function():
        return qr.convert(1.0, "eV", to="1/cm")

    @r
    def eigenbasis_read():
        ag, ta = dimer(bath=False)
        H = ag.get_Hamiltonian()
        with qr.eigenbasis_of(H):
            d = H.data.copy()
        return d

    @r
    def excited_density_matrix():
        ag, ta = dimer()                       # bath at 300 K
        return ag.get_excited_density_matrix().data.copy()

    @r
    def molecule_excited_density_matrix():
        ta = qr.TimeAxis(0.0, 200, 2.0)
        m = qr.Molecule([0.0, E(12000.0)])
        m.set_dipole(0, 1, [1.0, 0.0, 0.0])
        m.set_transition_environment((0, 1), cf(ta))
        return m.get_excited_density_matrix().data.copy()

    @r
    def opensystem_rate_matrices():
        ag, ta = dimer()
        a = ag.get_RedfieldRateMatrix().data.copy()
        b = ag.get_FoersterRateMatrix().data.copy()
        return a, b

    @r
    def kt_hierarchy():
        import io
        import contextlib
        ag, ta = dimer()
        with contextlib.redirect_stdout(io.StringIO()):
            hy = ag.get_KTHierarchy(depth=2)
        return numpy.array(hy.hinds).copy()

    @r
    def electronic_hamiltonian():
        ag, ta = dimer(bath=False)
        return ag.get_electronic_Hamiltonian().data.copy()

    @r
    def rwa_suggestion_and_statevector():
        ag, ta = dimer(bath=False)
        x = ag.get_RWA_suggestion()
        sv = ag.get_StateVector(condition_type="impulsive_excitation")
        return x

    return reg


# what each call returns: "energy" = energies expressed in the units current
# at call time, "plain" = quantities that do not depend on the energy units
# (rates and times in internal units, populations, spectra on their grid)
RETURNS = dict(
    molecule_create_get_set="energy", mode_create="energy",
    molecule_hamiltonian="energy", aggregate_build="energy",
    aggregate_build_mult2="energy", aggregate_coupling_get="energy",
    aggregate_dipole_coupling="energy", hamiltonian_rwa="energy",
    redfield_tensor="plain", redfield_tensor_td_secular="plain",
    foerster_tensor="plain", redfield_rates="plain",
    corfce_add_and_reorg="energy", corfce_measure_and_ft="plain",
    spectral_density="energy", abs_spectrum="plain",
    rdm_propagation="plain", thermal_states=("plain", "plain"),
    axes_and_ft=("plain", "energy"), convert_function="plain",
    eigenbasis_read="energy",
    excited_density_matrix="plain", molecule_excited_density_matrix="plain",
    opensystem_rate_matrices=("plain", "plain"), kt_hierarchy="plain",
    electronic_hamiltonian="energy")
# (rwa_suggestion_and_statevector has no entry: the suggestion is an average
# taken in the current units, which under the reciprocal unit nm is not the
# average of the energies; only the units handling of the call is checked)
