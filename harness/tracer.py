# -*- coding: utf-8 -*-
"""Run-time tracers.  They wrap methods of library classes from outside (no
source hook in /repo) inside the check process only, and are installed only
when the guard QUANTARHEI_VERIF=1 is set.

UnitsTracer : Manager.set_current_units / unset_current_units and the
              energy_units / length_units context managers -> one event per
              primitive transition with the projected manager state after it.
"""
import os
import functools

GUARD = "QUANTARHEI_VERIF"


def _norm_units(u):
    return "int" if u == "1/fs" else u


class UnitsTracer:

    def __init__(self):
        if os.environ.get(GUARD) != "1":
            raise RuntimeError("tracer requires %s=1" % GUARD)
        from quantarhei.core import managers
        self.m = managers
        self.man = managers.Manager()
        self.events = []
        self.nest = 0           # >0 while inside a context manager method
        self.libdepth = 0
        self.installed = False
        self._orig = {}

    # ------------------------------------------------------------------ state
    def state(self):
        man = self.man
        saved = getattr(man, "_saved_units", None) or {}
        st = ""
        su = ""
        if len(saved) == 1:
            st = list(saved.keys())[0]
            su = _norm_units(saved[st])
        elif len(saved) > 1:
            st = "MANY"
        return dict(energy=_norm_units(man.current_units["energy"]),
                    length=man.current_units["length"],
                    saved_t=st, saved_u=su,
                    euCount=int(man._in_eu_count),
                    euFlag=bool(man._in_energy_units_context))

    def log(self, ev, **kw):
        e = dict(ev=ev)
        e.update(kw)
        e.update(self.state())
        self.events.append(e)

    # ---------------------------------------------------------------- install
    def install(self):
        m = self.m
        tr = self
        Manager = m.Manager

        o_set = Manager.set_current_units
        o_unset = Manager.unset_current_units

        @functools.wraps(o_set)
        def set_current_units(self, utype, units):
            try:
                return o_set(self, utype, units)
            finally:
                if tr.nest == 0:
                    tr.log("rawset", utype=utype, units=_norm_units(units))

        @functools.wraps(o_unset)
        def unset_current_units(self, utype):
            ok = True
            try:
                return o_unset(self, utype)
            except Exception:
                ok = False
                raise
            finally:
                if tr.nest == 0 and ok:
                    tr.log("rawunset", utype=utype)

        def wrap_ctx(cls, kind):
            o_enter = cls.__enter__
            o_exit = cls.__exit__

            def __enter__(self):
                tr.nest += 1
                ok = False
                try:
                    r = o_enter(self)
                    ok = True
                    return r
                finally:
                    tr.nest -= 1
                    if ok:
                        tr.log("enter_" + kind, units=_norm_units(self.units))

            def __exit__(self, a, b, c):
                tr.nest += 1
                try:
                    return o_exit(self, a, b, c)
                finally:
                    tr.nest -= 1
                    tr.log("exit_" + kind, exc=a is not None)
            tr._orig[(cls, "__enter__")] = o_enter
            tr._orig[(cls, "__exit__")] = o_exit
            cls.__enter__ = __enter__
            cls.__exit__ = __exit__

        self._orig[(Manager, "set_current_units")] = o_set
        self._orig[(Manager, "unset_current_units")] = o_unset
        Manager.set_current_units = set_current_units
        Manager.unset_current_units = unset_current_units
        wrap_ctx(m.energy_units, "eu")
        wrap_ctx(m.length_units, "len")
        self.installed = True

    def uninstall(self):
        for (cls, name), fn in self._orig.items():
            setattr(cls, name, fn)
        self._orig = {}
        self.installed = False

    # ----------------------------------------------------------------- driver
    def lib_call(self, name, fn):
        """Runs a public library call made by the driver, bracketed by
        lib_begin / lib_end events."""
        self.events.append(dict(ev="lib_begin", name=name))
        exc = False
        try:
            return fn()
        except BaseException:
            exc = True
            raise
        finally:
            self.events.append(dict(ev="lib_end", name=name, exc=exc))

    def take(self):
        ev = self.events
        self.events = []
        return ev
