# -*- coding: utf-8 -*-
"""Run-time tracers.  They wrap methods of library classes from outside (no
source hook in /repo) inside the check process only, and are installed only
when the guard QUANTARHEI_VERIF=1 is set.

UnitsTracer : Manager.set_current_units / unset_current_units and the
              energy_units / length_units context managers -> one event per
              primitive transition with the projected manager state after it.
"""
import os
import functools

GUARD = "QUANTARHEI_VERIF"


def _norm_units(u):
    return "int" if u == "1/fs" else u


class UnitsTracer:

    def __init__(self):
        if os.environ.get(GUARD) != "1":
            raise RuntimeError("tracer requires %s=1" % GUARD)
        from quantarhei.core import managers
        self.m = managers
        self.man = managers.Manager()
        self.events = []
        self.nest = 0           # >0 while inside a context manager method
        self.libdepth = 0
        self.installed = False
        self._orig = {}

    # ------------------------------------------------------------------ state
    def state(self):
        man = self.man
        saved = getattr(man, "_saved_units", None) or {}
        st = ""
        su = ""
        if len(saved) == 1:
            st = list(saved.keys())[0]
            su = _norm_units(saved[st])
        elif len(saved) > 1:
            st = "MANY"
        return dict(energy=_norm_units(man.current_units["energy"]),
                    length=man.current_units["length"],
                    saved_t=st, saved_u=su,
                    euCount=int(man._in_eu_count),
                    euFlag=bool(man._in_energy_units_context))

    def log(self, ev, **kw):
        e = dict(ev=ev)
        e.update(kw)
        e.update(self.state())
        self.events.append(e)

    # ---------------------------------------------------------------- install
    def install(self):
        m = self.m
        tr = self
        Manager = m.Manager

        o_set = Manager.set_current_units
        o_unset = Manager.unset_current_units

        @functools.wraps(o_set)
        def set_current_units(self, utype, units):
            ok = False
            try:
                r = o_set(self, utype, units)
                ok = True
                return r
            finally:
                if tr.nest == 0:
                    if utype not in ("energy", "length"):
                        # a unit type outside the projection (frequency,
                        # temperature, ...): only the saved slot is observed
                        tr.log("rawset_other", utype=utype)
                    elif ok:
                        tr.log("rawset", utype=utype, units=_norm_units(units))
                    else:
                        # unknown units: the slot was overwritten before the
                        # method raised
                        tr.log("rawset_fail", utype=utype)

        @functools.wraps(o_unset)
        def unset_current_units(self, utype):
            ok = True
            try:
                return o_unset(self, utype)
            except Exception:
                ok = False
                raise
            finally:
                if tr.nest == 0 and ok:
                    if utype not in ("energy", "length"):
                        tr.log("rawunset_other", utype=utype)
                    else:
                        tr.log("rawunset", utype=utype)

        def wrap_ctx(cls, kind):
            o_enter = cls.__enter__
            o_exit = cls.__exit__

            def __enter__(self):
                tr.nest += 1
                ok = False
                try:
                    r = o_enter(self)
                    ok = True
                    return r
                finally:
                    tr.nest -= 1
                    if ok:
                        tr.log("enter_" + kind, units=_norm_units(self.units))

            def __exit__(self, a, b, c):
                tr.nest += 1
                try:
                    return o_exit(self, a, b, c)
                finally:
                    tr.nest -= 1
                    tr.log("exit_" + kind, exc=a is not None)
            tr._orig[(cls, "__enter__")] = o_enter
            tr._orig[(cls, "__exit__")] = o_exit
            cls.__enter__ = __enter__
            cls.__exit__ = __exit__

        self._orig[(Manager, "set_current_units")] = o_set
        self._orig[(Manager, "unset_current_units")] = o_unset
        Manager.set_current_units = set_current_units
        Manager.unset_current_units = unset_current_units
        wrap_ctx(m.energy_units, "eu")
        wrap_ctx(m.length_units, "len")
        self.installed = True

    def uninstall(self):
        for (cls, name), fn in self._orig.items():
            setattr(cls, name, fn)
        self._orig = {}
        self.installed = False

    # ----------------------------------------------------------------- driver
    def lib_call(self, name, fn):
        """Runs a public library call made by the driver, bracketed by
        lib_begin / lib_end events."""
        self.events.append(dict(ev="lib_begin", name=name))
        exc = False
        try:
            return fn()
        except BaseException:
            exc = True
            raise
        finally:
            self.events.append(dict(ev="lib_end", name=name, exc=exc))

    def take(self):
        ev = self.events
        self.events = []
        return ev


class BasisTracer:
    """Records the primitive transitions of the basis management:
    eigenbasis_of.__enter__/__exit__, Manager.transform_to_current_basis (when
    it actually changes an object), Manager.register_with_basis (constructors),
    BasisManaged.protect_basis / unprotect_basis, plus lib_begin / lib_end
    markers.  Objects are numbered in order of appearance."""

    def __init__(self, maxobj=60):
        if os.environ.get(GUARD) != "1":
            raise RuntimeError("tracer requires %s=1" % GUARD)
        from quantarhei.core import managers
        self.m = managers
        self.man = managers.Manager()
        self.events = []
        self.ids = {}
        self.keep = []            # keep objects alive so ids stay unique
        self.maxobj = maxobj
        self.nest = 0
        self._orig = {}
        self.overflow = False

    def oid(self, obj):
        k = id(obj)
        if k not in self.ids:
            if len(self.ids) >= self.maxobj:
                self.overflow = True
                return None
            self.ids[k] = "o%d" % len(self.ids)
            self.keep.append(obj)
        return self.ids[k]

    def state(self):
        man = self.man
        return dict(depth=len(man.basis_stack) - 1,
                    ntrans=len(man.basis_transformations) - 1,
                    flag=bool(man._in_eigenbasis_of_context))

    def log(self, ev, **kw):
        e = dict(ev=ev)
        e.update(kw)
        e.update(self.state())
        self.events.append(e)

    def install(self):
        m = self.m
        tr = self
        Manager = m.Manager
        eb = m.eigenbasis_of
        BM = m.BasisManaged

        o_enter, o_exit = eb.__enter__, eb.__exit__
        o_ttcb = Manager.transform_to_current_basis
        o_reg = Manager.register_with_basis
        o_prot, o_unprot = BM.protect_basis, BM.unprotect_basis

        def __enter__(self):
            op = tr.oid(self.op)
            oldtag = self.op.get_current_basis()
            tr.nest += 1
            ok = False
            try:
                r = o_enter(self)
                ok = True
                return r
            finally:
                tr.nest -= 1
                if ok and op is not None:
                    tr.log("enter", obj=op, oldtag=oldtag,
                           prot=bool(self.op.is_basis_protected),
                           tag=self.op.get_current_basis())

        def __exit__(self, a, b, c):
            man = tr.man
            bb = man.basis_stack[-1]
            moved = []
            for x in man.basis_registered.get(bb, []):
                i = tr.oid(x)
                if i is not None and i not in moved:
                    moved.append(i)
            tr.nest += 1
            try:
                return o_exit(self, a, b, c)
            finally:
                tr.nest -= 1
                tr.log("exit", exc=a is not None, moved=sorted(moved))

        def transform_to_current_basis(self, operator):
            ob = operator.get_current_basis()
            try:
                return o_ttcb(self, operator)
            finally:
                if tr.nest == 0:
                    nb = operator.get_current_basis()
                    if nb != ob:
                        i = tr.oid(operator)
                        if i is not None:
                            tr.log("access", obj=i, oldtag=ob, tag=nb)

        def register_with_basis(self, nb, operator):
            r = o_reg(self, nb, operator)
            # constructors call this directly; the calls made by
            # transform_to_current_basis and __exit__ are part of those events
            import sys
            caller = sys._getframe(1).f_code.co_name
            if caller not in ("transform_to_current_basis", "__exit__",
                              "_wrapped_ttcb"):
                i = tr.oid(operator)
                if i is not None:
                    tr.log("create", obj=i, tag=nb)
            return r

        def protect_basis(self):
            o_prot(self)
            i = tr.oid(self)
            if i is not None:
                tr.log("protect", obj=i, oldtag=self.get_current_basis())

        def unprotect_basis(self):
            o_unprot(self)
            i = tr.oid(self)
            if i is not None:
                tr.log("unprotect", obj=i, oldtag=self.get_current_basis())

        self._orig = {(eb, "__enter__"): o_enter, (eb, "__exit__"): o_exit,
                      (Manager, "transform_to_current_basis"): o_ttcb,
                      (Manager, "register_with_basis"): o_reg,
                      (BM, "protect_basis"): o_prot,
                      (BM, "unprotect_basis"): o_unprot}
        eb.__enter__, eb.__exit__ = __enter__, __exit__
        Manager.transform_to_current_basis = transform_to_current_basis
        Manager.register_with_basis = register_with_basis
        BM.protect_basis, BM.unprotect_basis = protect_basis, unprotect_basis

    def uninstall(self):
        for (cls, name), fn in self._orig.items():
            setattr(cls, name, fn)
        self._orig = {}

    def lib_call(self, name, fn):
        self.events.append(dict(ev="lib_begin", name=name, **self.state()))
        exc = False
        try:
            return fn()
        except BaseException:
            exc = True
            raise
        finally:
            self.events.append(dict(ev="lib_end", name=name, exc=exc,
                                    **self.state()))

    def take(self):
        ev = self.events
        self.events = []
        self.ids = {}
        self.keep = []
        self.overflow = False
        return ev
