# -*- coding: utf-8 -*-
"""Parser for TLA+ values as printed by TLC and for the behaviour files
written by `tlc -simulate file=...` (one module per behaviour:
`\\* <Action line ...>` followed by `STATE_n == /\\ var = value ...`).

Values map to Python as:
  integers -> int, strings -> str, TRUE/FALSE -> bool,
  <<a, b>> -> list, {a, b} -> frozenset (elements made hashable),
  [f |-> v, ...] -> dict (str keys), (k :> v @@ ...) -> dict (keys as parsed)
"""
import re
import os
import glob


class TlaParseError(Exception):
    pass


_TOKEN = re.compile(r"""
    \s*(?:
      (?P<int>-?\d+)
    | (?P<str>"(?:[^"\\]|\\.)*")
    | (?P<sym><<|>>|\|->|:>|@@|\[|\]|\{|\}|\(|\)|,)
    | (?P<id>[A-Za-z_][A-Za-z0-9_]*)
    )""", re.X)


def _tokenize(s):
    pos = 0
    out = []
    n = len(s)
    while pos < n:
        if s[pos:].strip() == "":
            break
        m = _TOKEN.match(s, pos)
        if not m:
            raise TlaParseError("cannot tokenize at %r" % s[pos:pos + 30])
        pos = m.end()
        kind = m.lastgroup
        out.append((kind, m.group(kind)))
    return out


def _hashable(v):
    if isinstance(v, list):
        return tuple(_hashable(x) for x in v)
    if isinstance(v, dict):
        return tuple(sorted((_hashable(k), _hashable(x)) for k, x in v.items()))
    if isinstance(v, (set, frozenset)):
        return frozenset(_hashable(x) for x in v)
    return v


class _P:
    def __init__(self, toks):
        self.t = toks
        self.i = 0

    def peek(self):
        return self.t[self.i] if self.i < len(self.t) else (None, None)

    def next(self):
        tok = self.peek()
        self.i += 1
        return tok

    def expect(self, sym):
        k, v = self.next()
        if v != sym:
            raise TlaParseError("expected %s got %r" % (sym, v))

    def value(self):
        k, v = self.next()
        if k == "int":
            return int(v)
        if k == "str":
            return v[1:-1].replace('\\"', '"').replace("\\\\", "\\")
        if k == "id":
            if v == "TRUE":
                return True
            if v == "FALSE":
                return False
            return v                      # model value
        if v == "<<":
            out = []
            if self.peek()[1] == ">>":
                self.next()
                return out
            while True:
                out.append(self.value())
                k2, v2 = self.next()
                if v2 == ">>":
                    return out
                if v2 != ",":
                    raise TlaParseError("bad sequence")
        if v == "{":
            out = []
            if self.peek()[1] == "}":
                self.next()
                return frozenset()
            while True:
                out.append(_hashable(self.value()))
                k2, v2 = self.next()
                if v2 == "}":
                    return frozenset(out)
                if v2 != ",":
                    raise TlaParseError("bad set")
        if v == "[":
            out = {}
            while True:
                k2, name = self.next()
                self.expect("|->")
                out[name] = self.value()
                k3, v3 = self.next()
                if v3 == "]":
                    return out
                if v3 != ",":
                    raise TlaParseError("bad record")
        if v == "(":
            out = {}
            while True:
                key = _hashable(self.value())
                self.expect(":>")
                out[key] = self.value()
                k3, v3 = self.next()
                if v3 == ")":
                    return out
                if v3 != "@@":
                    raise TlaParseError("bad function")
        raise TlaParseError("unexpected token %r" % (v,))


def parse_value(s):
    p = _P(_tokenize(s))
    v = p.value()
    if p.i != len(p.t):
        raise TlaParseError("trailing tokens in %r" % s[:60])
    return v


_ACT = re.compile(r"^\\\* <(\w+)(?:\((.*?)\))? line (\d+)")


def parse_behaviour_file(path):
    """Returns a list of (action_name, state_dict)."""
    states = []
    action = None
    args = None
    cur = None
    buf = None
    with open(path) as f:
        lines = f.read().split("\n")

    def flush_var():
        nonlocal buf
        if buf is not None:
            name, txt = buf
            cur[name] = parse_value(txt)
            buf = None

    for ln in lines:
        m = _ACT.match(ln)
        if m:
            action = m.group(1)
            args = m.group(2)
            continue
        if ln.startswith("STATE_"):
            cur = {}
            if args:
                try:
                    cur["_args"] = parse_value("<<" + args + ">>")
                except TlaParseError:
                    cur["_args"] = args
            else:
                cur["_args"] = []
            states.append((action, cur))
            continue
        if cur is None:
            continue
        if ln.startswith("/\\ "):
            flush_var()
            name, _, txt = ln[3:].partition(" = ")
            buf = (name.strip(), txt)
        elif ln.startswith("====") or ln.strip() == "":
            flush_var()
        elif buf is not None:
            buf = (buf[0], buf[1] + " " + ln)
    flush_var()
    return states


def load_behaviours(prefix, must_contain=None):
    """All behaviour files written with file=<prefix> (optionally only those
    whose text contains `must_contain`, e.g. an action label)."""
    out = []
    for p in sorted(glob.glob(prefix + "_*")):
        if os.path.isfile(p):
            if must_contain is not None:
                with open(p) as f:
                    if must_contain not in f.read():
                        continue
            out.append(parse_behaviour_file(p))
    return out
