# -*- coding: utf-8 -*-
"""Shared machinery of the /verif checks.

Verdict discipline (DESIGN.md 1.3):
  exit 0  property held on everything explored (KNOWN-FINDING lines allowed)
  exit 1  `VIOLATION property=<id> replay=<path>` printed for a violation that
          known_findings.json does not list
  exit 2  machinery failure (TLC crashed, table/transcription mismatch, ...)
"""
import os
import sys
import json
import time
import hashlib
import random
import re
import shutil
import subprocess
import tempfile
import traceback
import contextlib

VERIF = os.path.dirname(os.path.dirname(os.path.abspath(__file__)))
REPO = os.environ.get("VERIF_REPO", "/repo")
SPECS = os.path.join(VERIF, "specs")
# (VERIF_OUT: scratch output directory used by tools/mutation.py when many
# checks run in parallel against scratch copies of the repository; the
# registered commands never set it)
_OUT = os.environ.get("VERIF_OUT", VERIF)
EVIDENCE = os.path.join(_OUT, "evidence")
REPLAYS = os.path.join(_OUT, "replays")
KNOWN = os.path.join(VERIF, "known_findings.json")
GUARD = "QUANTARHEI_VERIF"


# the Check object of this process (for run_check)
CURRENT = [None]


class MachineryFailure(Exception):
    pass


def prepare_environment():
    """Isolates the library from user configuration and switches the harness
    tracer guard on.  Must run before quantarhei is imported."""
    os.environ[GUARD] = "1"
    os.environ.setdefault("PYTHONHASHSEED", "0")
    home = tempfile.mkdtemp(prefix="qrverif_home_")
    os.environ["HOME"] = home
    os.environ["MPLBACKEND"] = "Agg"
    if REPO not in sys.path:
        sys.path.insert(0, REPO)
    import warnings
    warnings.filterwarnings("ignore")
    return home


def jsonable(x, depth=0):
    """Best-effort conversion of samples to JSON."""
    try:
        import numpy
    except Exception:          # pragma: no cover
        numpy = None
    if isinstance(x, (str, int, bool)) or x is None:
        return x
    if isinstance(x, float):
        if x != x or x in (float("inf"), float("-inf")):
            return repr(x)
        return x
    if isinstance(x, complex):
        return [x.real, x.imag]
    if numpy is not None:
        if isinstance(x, numpy.ndarray):
            if x.size > 64:
                return {"shape": list(x.shape), "sha": hashlib.sha1(
                    numpy.ascontiguousarray(x).tobytes()).hexdigest()[:12]}
            return jsonable(x.tolist(), depth + 1)
        if isinstance(x, numpy.generic):
            return jsonable(x.item(), depth + 1)
    if isinstance(x, dict):
        return {str(k): jsonable(v, depth + 1) for k, v in x.items()}
    if isinstance(x, (list, tuple, set, frozenset)):
        return [jsonable(v, depth + 1) for v in x]
    return repr(x)


def load_known():
    if not os.path.exists(KNOWN):
        return []
    with open(KNOWN) as f:
        doc = json.load(f)
    return doc.get("known", [])


class Check:
    """One run of one property's check."""

    def __init__(self, pid, level="model_checking", argv=None):
        self.pid = pid
        self.level = level
        CURRENT[0] = self
        argv = sys.argv[1:] if argv is None else argv
        tier = os.environ.get("VERIF_TIER", "") or "quick"
        self.replay_path = None
        i = 0
        while i < len(argv):
            if argv[i] == "--tier":
                tier = argv[i + 1]
                i += 1
            elif argv[i] == "--replay":
                self.replay_path = argv[i + 1]
                i += 1
            i += 1
        self.replay_doc = None
        seed_env = os.environ.get("VERIF_SEED", "0") or 0
        if self.replay_path:
            # --replay: re-run the check with the seed and tier recorded in the
            # replay file and say whether the same violation comes back
            with open(self.replay_path) as f:
                self.replay_doc = json.load(f)
            tier = self.replay_doc.get("tier", tier)
            seed_env = self.replay_doc.get("seed", seed_env)
        self.tier = tier if tier in ("quick", "thorough") else "quick"
        self.thorough = self.tier == "thorough"
        self.seed = int(seed_env)
        self.rng = random.Random(self.seed)
        self.t0 = time.time()
        self.evaluations = 0
        self.distinct = set()
        self.samples = []
        self.max_samples = 6
        self.violations = []
        self.known_hits = {}
        self.states = 0
        self.transitions = 0
        self.traces_validated = 0
        self.tlc_runs = []
        self.obligations = 0        # TLAPS proof obligations (un-mutated runs)
        self.discharged = 0
        self.assumptions = []
        self.notes = []
        self.drift = []
        self.clauses = {}
        self.extra = {}
        self.known = [k for k in load_known() if k.get("property") == pid]
        self._printed = set()

    # ------------------------------------------------------------------ cases
    def case(self, clause, key=None, nontrivial=True, sample=None):
        """Registers one explored case of `clause`."""
        self.evaluations += 1
        self.clauses[clause] = self.clauses.get(clause, 0) + 1
        if nontrivial:
            k = (clause, key if key is not None else self.evaluations)
            self.distinct.add(hashlib.sha1(repr(k).encode()).hexdigest()[:16])
        if sample is not None:
            per = sum(1 for s in self.samples if s.get("clause") == clause)
            if per < 2 and len(self.samples) < 40:
                self.samples.append({"clause": clause,
                                     "case": jsonable(sample)})

    def note(self, txt):
        self.notes.append(txt)
        print("NOTE: " + txt)

    def model_drift(self, txt):
        self.drift.append(txt)
        print("NOTE: model drift: " + txt)

    def assume(self, txt):
        if txt not in self.assumptions:
            self.assumptions.append(txt)

    # ------------------------------------------------------------- violations
    def violation(self, clause, key, detail, replay=None):
        """Reports that the real code violates `clause` of the property on a
        concrete input. `key` classifies the failing input (compared with
        known_findings.json); `replay` is saved for --replay."""
        for k in self.known:
            if k.get("key") == key:
                if key not in self.known_hits:
                    self.known_hits[key] = 0
                    print("KNOWN-FINDING: property=%s %s [%s]" %
                          (self.pid, k.get("what", key), key))
                self.known_hits[key] += 1
                return False
        doc = {"property": self.pid, "clause": clause, "key": key,
               "detail": jsonable(detail), "seed": self.seed,
               "tier": self.tier, "replay": jsonable(replay)}
        h = hashlib.sha1(json.dumps(doc, sort_keys=True).encode()
                         ).hexdigest()[:10]
        os.makedirs(REPLAYS, exist_ok=True)
        path = os.path.join(REPLAYS, "%s_%s_%s.json" % (self.pid, re.sub(
            r"[^A-Za-z0-9]+", "-", clause)[:40], h))
        if len(self.violations) < 25:
            with open(path, "w") as f:
                json.dump(doc, f, indent=1)
            print("VIOLATION property=%s replay=%s" % (self.pid, path))
            print("  clause=%s key=%s detail=%s" % (clause, key, json.dumps(
                jsonable(detail))[:400]))
        self.violations.append({"clause": clause, "key": key, "replay": path})
        return True

    @contextlib.contextmanager
    def guarded(self, clause, key, detail=None, replay=None):
        """An exception raised by the code under test where the property
        demands a result is a violation of that clause, not a harness
        failure."""
        try:
            yield
        except MachineryFailure:
            raise
        except Exception as e:
            tb = traceback.format_exc()
            d = dict(detail or {})
            d.update(exception=repr(e)[:300], traceback=tb[-700:])
            self.violation(clause, "%s:exception:%s" % (key, type(e).__name__),
                           d, replay)

    # -------------------------------------------------------------------- TLC
    def tlc(self, module, cfg=None, workers=None, simulate=None, depth=None,
            extra=None, env=None, timeout=3000, expect_violation=None,
            coverage=False, seed=None, count=True, cwd=None, dfs=False,
            _allow_violation=False):
        """Runs TLC on specs/<module>.tla with specs/<cfg>. Returns a dict.
        A failing run is a machinery failure unless `expect_violation` names
        the invariant/property that is expected to be violated (used for the
        negative controls / models of known-defective variants)."""
        cwd = cwd or SPECS
        cfg = cfg or (module + ".cfg")
        meta = tempfile.mkdtemp(prefix="tlc_")
        cmd = ["tlc", "-metadir", meta, "-noGenerateSpecTE",
               "-workers", str(workers or "auto"), "-config", cfg]
        if coverage:
            cmd += ["-coverage", "1"]
        if simulate:
            cmd += ["-simulate", simulate]
            if depth:
                cmd += ["-depth", str(depth)]
        if seed is not None:
            cmd += ["-seed", str(seed)]
        if extra:
            cmd += list(extra)
        cmd.append(module + ".tla")
        e = dict(os.environ)
        # (a bounded heap: the models are small, and several checks may run
        # side by side on one machine)
        jopts = ["-Xmx6g"]
        if dfs:
            jopts.append("-Dtlc2.tool.queue.IStateQueue=StateDeque")
        e["JAVA_TOOL_OPTIONS"] = " ".join(
            [e.get("JAVA_TOOL_OPTIONS", "")] + jopts).strip()
        if env:
            e.update({k: str(v) for k, v in env.items()})
        t0 = time.time()
        # a run that ends abnormally without a verdict (killed on a loaded
        # machine) is repeated once
        for attempt in (0, 1):
            os.makedirs(meta, exist_ok=True)
            try:
                p = subprocess.run(cmd, cwd=cwd, env=e,
                                   stdout=subprocess.PIPE,
                                   stderr=subprocess.STDOUT, timeout=timeout)
                out = p.stdout.decode("utf-8", "replace")
                rc = p.returncode
            except subprocess.TimeoutExpired as ex:
                out = (ex.stdout or b"").decode("utf-8", "replace")
                rc = -9
            finally:
                shutil.rmtree(meta, ignore_errors=True)
            res = parse_tlc(out)
            if rc == 0 or res["violated"] or res["error"] or rc == -9 or \
                    "Model checking completed" in out or \
                    "Finished in" in out:
                break
        res.update(rc=rc, wall=time.time() - t0, cmd=" ".join(cmd),
                   module=module, cfg=cfg, out=out)
        run = {k: res.get(k) for k in ("module", "cfg", "rc", "generated",
                                       "distinct", "depth", "violated")}
        run["wall_s"] = round(res["wall"], 1)
        self.tlc_runs.append(run)
        if expect_violation:
            if res["violated"] != expect_violation:
                raise MachineryFailure(
                    "TLC %s/%s: expected violation of %s, got %r (rc=%s)\n%s"
                    % (module, cfg, expect_violation, res["violated"], rc,
                       out[-3000:]))
            return res
        if _allow_violation and res["violated"] and not res["error"]:
            return res
        if rc != 0 or res["violated"] or res["error"]:
            raise MachineryFailure("TLC %s/%s failed rc=%s violated=%r\n%s" %
                                   (module, cfg, rc, res["violated"],
                                    out[-4000:]))
        if count:
            self.states += res["distinct"] or 0
            self.transitions += res["generated"] or 0
        if coverage:
            dead = [a for a, (d, g) in res["coverage"].items() if g == 0]
            res["dead_actions"] = dead
        return res

    # ------------------------------------------------------------------ TLAPS
    def tlaps(self, module, mutate=None, timeout=900, deps=()):
        """Runs the TLA+ proof system on a copy of specs/<module>.tla in a
        scratch directory.  Returns (proved, total).  With `mutate` =
        (old, new) the text is changed first (negative control: the changed
        module must NOT be provable)."""
        import re
        tmp = tempfile.mkdtemp(prefix="tlaps_")
        t0 = time.time()
        try:
            with open(os.path.join(SPECS, module + ".tla")) as f:
                text = f.read()
            if mutate:
                if mutate[0] not in text:
                    raise MachineryFailure("tlaps: mutation site not found")
                text = text.replace(mutate[0], mutate[1])
            with open(os.path.join(tmp, module + ".tla"), "w") as f:
                f.write(text)
            for dep in deps:         # modules it EXTENDS (same directory)
                shutil.copy(os.path.join(SPECS, dep + ".tla"), tmp)
            # the back-end provers work under wall-clock time limits: on a
            # loaded machine an obligation may time out, so an incomplete
            # proof of the unmutated module is attempted once more with the
            # limits stretched (a mutated module is expected to fail)
            attempts = [["--threads", "8"]]
            if not mutate:
                attempts.append(["--threads", "4", "--stretch", "8"])
            res = None
            for extra in attempts:
                try:
                    p = subprocess.run(["tlapm"] + extra + [module + ".tla"],
                                       cwd=tmp, stdout=subprocess.PIPE,
                                       stderr=subprocess.STDOUT,
                                       timeout=timeout)
                    out = p.stdout.decode("utf-8", "replace")
                except subprocess.TimeoutExpired:
                    raise MachineryFailure("tlapm timed out on " + module)
                m = re.search(r"All (\d+) obligations? proved", out)
                if m:
                    res = (int(m.group(1)), int(m.group(1)))
                    break
                m = re.search(r"(\d+)/(\d+) obligations? failed", out)
                if not m:
                    raise MachineryFailure("tlapm output not understood:\n"
                                           + out[-2000:])
                res = (int(m.group(2)) - int(m.group(1)), int(m.group(2)))
        finally:
            shutil.rmtree(tmp, ignore_errors=True)
        if not mutate:
            self.obligations += res[1]
            self.discharged += res[0]
        self.tlc_runs.append(dict(module=module, cfg="tlapm" + (
            " (mutated)" if mutate else ""), rc=0, generated=None,
            distinct=None, depth=None,
            violated=None if res[0] == res[1] else
            "%d obligations unproved" % (res[1] - res[0]),
            wall_s=round(time.time() - t0, 1)))
        return res

    # ------------------------------------------------- trace validation (H->S)
    def validate_traces(self, module, cfg, traces, env=None, workers=1,
                        invariant="Accepting", timeout=3000, extra_doc=None):
        """Writes {"traces": traces} to a file, lets TLC check the trace
        specification `module` with `cfg` and returns None if every trace is
        accepted, else dict(tid=, l=, violated=, state=) for the first
        rejected one (tid and l are 1-based, as in the trace spec)."""
        tmp = tempfile.mkdtemp(prefix="trace_")
        try:
            path = os.path.join(tmp, "traces.json")
            doc = {"traces": traces}
            if extra_doc:
                doc.update(extra_doc)
            with open(path, "w") as f:
                json.dump(doc, f)
            e = {"TRACE_FILE": path}
            if env:
                e.update(env)
            res = self.tlc(module, cfg, workers=workers, env=e,
                           timeout=timeout, count=True,
                           expect_violation=None, _allow_violation=True)
        finally:
            shutil.rmtree(tmp, ignore_errors=True)
        if res["violated"] is None and res["rc"] == 0:
            self.traces_validated += len(traces)
            return None
        out = res["out"]
        mm = re.findall(r"/\\ tid = (\d+)", out)
        mls = re.findall(r"/\\ l = (\d+)", out)
        m = mm[-1] if mm else None
        ml = mls[-1] if mls else None
        if not m:
            raise MachineryFailure("trace validation failed without a state:"
                                   "\n" + out[-3000:])
        i = out.find("Error:")
        return {"tid": int(m), "l": int(ml) if ml else None,
                "violated": res["violated"], "state": out[i:i + 1500]}

    # ----------------------------------------------------------------- finish
    def finish(self):
        wall = time.time() - self.t0
        cov = {
            "evaluations": int(self.evaluations),
            "distinct_nontrivial": len(self.distinct),
            "rule": self.extra.pop("rule", "see clause_counts; a case is "
                                   "distinct by (clause, input key) and "
                                   "non-trivial when it exercises the clause's"
                                   " antecedent"),
            "samples": self.samples[:40] or [{"note": "no samples"}],
            "states": int(self.states),
            "transitions": int(self.transitions),
            "traces_validated_against_impl": int(self.traces_validated),
            "clause_counts": self.clauses,
            "tlc_runs": self.tlc_runs,
            "known_findings_hit": self.known_hits,
            "model_drift": self.drift,
            "notes": self.notes,
        }
        if self.obligations:
            cov["obligations"] = int(self.obligations)
            cov["discharged"] = int(self.discharged)
            cov["checker_cmd"] = "tlapm (TLAPS 1.6.0-pre; SMT, Zenon, Isabelle)"
        cov.update(self.extra)
        doc = {"property_id": self.pid, "tier": self.tier, "seed": self.seed,
               "level": self.level, "coverage": cov,
               "assumptions": self.assumptions,
               "wall_s": round(wall, 2),
               "violations": len(self.violations)}
        os.makedirs(EVIDENCE, exist_ok=True)
        with open(os.path.join(EVIDENCE, self.pid + ".json"), "w") as f:
            json.dump(doc, f, indent=1, sort_keys=True)
        if self.violations:
            byk = {}
            for v in self.violations:
                k = "%s | %s" % (v["clause"], v["key"])
                byk[k] = byk.get(k, 0) + 1
            print("violations by (clause | key): " + json.dumps(byk))
        print("%s tier=%s seed=%d evaluations=%d distinct=%d states=%d "
              "traces=%d violations=%d known=%d wall=%.1fs" % (
                  self.pid, self.tier, self.seed, self.evaluations,
                  len(self.distinct), self.states, self.traces_validated,
                  len(self.violations), len(self.known_hits), wall))
        if self.replay_doc is not None:
            want = (self.replay_doc.get("clause"), self.replay_doc.get("key"))
            hit = [v for v in self.violations
                   if (v["clause"], v["key"]) == want]
            print("REPLAY %s: clause=%s key=%s %s" % (
                self.replay_path, want[0], want[1],
                "REPRODUCED (%d times)" % len(hit) if hit
                else "not reproduced on this tree"))
            return 1 if hit else 0
        return 1 if self.violations else 0


_RE_STATES = re.compile(r"(\d+) states generated, (\d+) distinct states found")
_RE_DEPTH = re.compile(r"The depth of the complete state graph search is (\d+)")
_RE_INV = re.compile(r"Error: Invariant (\S+) is violated")
_RE_PROP = re.compile(r"Error: (?:Action|Temporal) property (\S+) is violated")
_RE_COV = re.compile(r"^<(\w+) line (\d+), col \d+ to line \d+, col \d+ of "
                     r"module (\w+)(?: \([\d ]+\))?>: (\d+):(\d+)", re.M)


def parse_tlc(out):
    res = {"generated": None, "distinct": None, "depth": None,
           "violated": None, "error": None, "coverage": {}}
    m = None
    for m in _RE_STATES.finditer(out):
        pass
    if m:
        res["generated"] = int(m.group(1))
        res["distinct"] = int(m.group(2))
    m = _RE_DEPTH.search(out)
    if m:
        res["depth"] = int(m.group(1))
    m = _RE_INV.search(out) or _RE_PROP.search(out)
    if m:
        res["violated"] = m.group(1).rstrip(".")
    elif "Error: Assumption" in out or "is false" in out and "Assumption" in out:
        res["violated"] = "ASSUME"
    elif "Error:" in out:
        mm = re.search(r"Error: (.*)", out)
        res["error"] = mm.group(1) if mm else "error"
        if "Deadlock reached" in out:
            res["violated"] = "Deadlock"
            res["error"] = None
        if "postcondition" in out.lower():
            res["violated"] = "POSTCONDITION"
            res["error"] = None
    for m in _RE_COV.finditer(out):
        name = m.group(1)
        d, g = int(m.group(4)), int(m.group(5))
        od, og = res["coverage"].get(name, (0, 0))
        res["coverage"][name] = (od + d, og + g)
    return res


def tla_value(x):
    """Python -> TLA+ literal (ints, strings, bools, lists->sequences,
    tuples->sequences, dicts->records/functions with string keys,
    sets->sets)."""
    if isinstance(x, bool):
        return "TRUE" if x else "FALSE"
    if isinstance(x, int):
        return str(x)
    if isinstance(x, str):
        return '"%s"' % x
    if isinstance(x, (list, tuple)):
        return "<<" + ", ".join(tla_value(v) for v in x) + ">>"
    if isinstance(x, (set, frozenset)):
        return "{" + ", ".join(tla_value(v) for v in sorted(x, key=repr)) + "}"
    if isinstance(x, dict):
        if not x:
            return "<<>>"
        return "[" + ", ".join("%s |-> %s" % (k, tla_value(v))
                               for k, v in x.items()) + "]"
    raise TypeError(type(x))


def run_check(main):
    """Entry wrapper: exit 2 on machinery failure."""
    try:
        rc = main()
    except MachineryFailure as e:
        ck = CURRENT[0]
        if ck is not None and ck.violations:
            # violations recorded before the harness gave up (typically an
            # anti-vacuity guard that fires BECAUSE everything failed) are
            # reported; the guard is kept as a note
            ck.note("harness stopped early: %s" % e)
            ck.assume("the run stopped early; clauses after that point were "
                      "not evaluated")
            sys.exit(ck.finish())
        print("MACHINERY-FAILURE: %s" % e)
        sys.exit(2)
    except Exception as e:
        traceback.print_exc()
        # An exception raised INSIDE the library (innermost frame in the
        # repository) by a call the check makes for an input in the
        # property's domain: the library gave no result where the property
        # states one.  Reported as a violation (the replay re-runs the check);
        # anything raised by the harness itself is a machinery failure.
        frames = traceback.extract_tb(sys.exc_info()[2])
        repo_real = os.path.realpath(REPO) + os.sep
        verif_real = os.path.realpath(VERIF) + os.sep
        # innermost library frame entered after the last harness frame (the
        # exception may surface in numpy / scipy called by the library)
        last_h = max([i for i, f in enumerate(frames) if os.path.realpath(
            f.filename).startswith(verif_real)] or [-1])
        lib = [f for f in frames[last_h + 1:] if os.path.realpath(
            f.filename).startswith(repo_real)]
        inner = lib[-1] if lib else None
        if CURRENT[0] is not None and inner is not None:
            ck = CURRENT[0]
            rel = os.path.realpath(inner.filename)[len(repo_real):]
            ck.violation("library-exception",
                         "%s:%s:%s" % (rel, inner.name, type(e).__name__),
                         dict(exception=repr(e)[:300], file=rel,
                              function=inner.name, line=inner.lineno,
                              harness_line=next((
                                  "%s:%d" % (os.path.basename(f.filename),
                                             f.lineno) for f in frames
                                  if os.sep + "checks" + os.sep in
                                  f.filename), None)),
                         dict(kind="library-exception"))
            ck.assume("the run stopped at an exception raised inside the "
                      "library; clauses after that point were not evaluated")
            sys.exit(ck.finish())
        # An exception raised by the check's own code while it handles what
        # the library returned (an object without its data, a result of
        # another type): the check is deterministic for a seed and passes on
        # the unchanged tree, so the library's result is what changed.
        last = frames[-1] if frames else None
        if CURRENT[0] is not None and last is not None and \
                os.path.realpath(last.filename).startswith(
                    os.path.join(verif_real, "checks") + os.sep) and \
                isinstance(e, (AttributeError, TypeError, KeyError,
                               IndexError, ValueError, ZeroDivisionError,
                               ArithmeticError)):
            ck = CURRENT[0]
            ck.violation("library-result-unusable",
                         "%s:%d:%s" % (os.path.basename(last.filename),
                                       last.lineno, type(e).__name__),
                         dict(exception=repr(e)[:300],
                              harness_line="%s:%d" % (
                                  os.path.basename(last.filename),
                                  last.lineno)),
                         dict(kind="library-result-unusable"))
            ck.assume("the run stopped where the check could not use what "
                      "the library returned; clauses after that point were "
                      "not evaluated")
            sys.exit(ck.finish())
        print("MACHINERY-FAILURE: unexpected exception in the harness")
        sys.exit(2)
    sys.exit(rc)
