# -*- coding: utf-8 -*-
"""Dispatcher: harness/run.py <ID> [--tier t] [--replay path]"""
import os
import sys
import importlib

HERE = os.path.dirname(os.path.dirname(os.path.abspath(__file__)))
sys.path.insert(0, HERE)

from harness import common  # noqa: E402


def main():
    if len(sys.argv) < 2:
        print("usage: bin/check <ID> [--tier quick|thorough] [--replay path]")
        sys.exit(2)
    pid = sys.argv[1].upper()
    sys.argv = [sys.argv[0]] + sys.argv[2:]
    home = common.prepare_environment()
    try:
        mod = importlib.import_module("checks." + pid.lower())
        common.run_check(mod.main)
    finally:
        import shutil
        shutil.rmtree(home, ignore_errors=True)


if __name__ == "__main__":
    main()
