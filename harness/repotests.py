# -*- coding: utf-8 -*-
"""Runs unit tests of the repository inside the check process under the
run-time tracers, one recorded trace per test method, so that TLC can
validate every primitive transition of the units / basis management that
the repository's own tests exercise (their own assertions do not look at
that state)."""
import io
import os
import sys
import unittest
import contextlib

REPO = os.environ.get("VERIF_REPO", "/repo")

QUICK_DIRS = ["tests/unit/core", "tests/unit/qm/hilbertspace",
              "tests/unit/qm/corfunctions"]
THOROUGH_DIRS = QUICK_DIRS + ["tests/unit/qm/propagators",
                              "tests/unit/qm/liouvillespace",
                              "tests/unit/builders",
                              "tests/unit/spectroscopy"]


def _iter_tests(suite):
    for t in suite:
        if isinstance(t, unittest.TestSuite):
            for x in _iter_tests(t):
                yield x
        else:
            yield t


def reset_manager():
    from quantarhei.core.managers import Manager
    man = Manager()
    man.current_units["energy"] = "1/fs"
    man.current_units["frequency"] = "1/fs"
    man.current_units["length"] = "A"
    man._saved_units = {}
    man._in_eu_count = 0
    man._in_energy_units_context = False
    man.basis_stack = [0]
    man.basis_transformations = [1]
    man.basis_registered = {}
    man._in_eigenbasis_of_context = False
    man.parallel_conf = None


def run_under(tracer, thorough=False, limit=None):
    """Returns (traces, labels, skipped).  `tracer` must be installed."""
    traces, labels, skipped = [], [], 0
    dirs = THOROUGH_DIRS if thorough else QUICK_DIRS
    loader = unittest.TestLoader()
    cwd = os.getcwd()
    os.chdir(REPO)
    try:
        for d in dirs:
            try:
                suite = loader.discover(os.path.join(REPO, d),
                                        pattern="*test*.py",
                                        top_level_dir=REPO)
            except Exception:
                continue
            for t in _iter_tests(suite):
                if t.__class__.__name__ == "_FailedTest":
                    continue
                reset_manager()
                tracer.take()
                res = unittest.TestResult()
                with contextlib.redirect_stdout(io.StringIO()), \
                        contextlib.redirect_stderr(io.StringIO()):
                    try:
                        t.run(res)
                    except BaseException:
                        pass
                over = getattr(tracer, "overflow", False)
                ev = tracer.take()
                if over:
                    skipped += 1
                    continue
                if ev:
                    traces.append(ev)
                    labels.append(t.id())
                if limit and len(traces) >= limit:
                    return traces, labels, skipped
    finally:
        os.chdir(cwd)
        reset_manager()
    return traces, labels, skipped


# ---------------------------------------------------------------- examples
# The scripts shipped as quantarhei.wizard.examples are the usage the
# documentation shows; each one runs in-process under the tracer (one trace
# per script).  Several of them stop with an exception on this tree (removed
# keyword arguments, missing data files): the recorded prefix is validated
# all the same, and it exercises the error exits of the contexts.
QUICK_EXAMPLES = ["ex_001", "ex_002", "ex_003", "ex_004", "ex_005", "ex_010",
                  "ex_012", "ex_014", "ex_015", "ex_016", "ex_017", "ex_018",
                  "ex_020", "ex_040", "ex_100", "ex_101", "ex_102", "ex_200",
                  "ex_800"]
THOROUGH_EXAMPLES = QUICK_EXAMPLES + ["ex_006", "ex_011", "ex_013_",
                                      "ex_030", "ex_031", "ex_035", "ex_036",
                                      "ex_300", "ex_850"]


# number of example scripts executed by the last run_examples_under (whether
# or not they produced events of the tracer)
RAN = [0]


def run_examples_under(tracer, thorough=False):
    """Returns (traces, labels, outcomes, skipped)."""
    import glob
    import runpy
    import shutil
    import tempfile
    os.environ.setdefault("MPLBACKEND", "Agg")
    exdir = os.path.join(REPO, "quantarhei", "wizard", "examples")
    names = THOROUGH_EXAMPLES if thorough else QUICK_EXAMPLES
    traces, labels, outcomes, skipped = [], [], [], 0
    RAN[0] = 0
    cwd = os.getcwd()
    work = tempfile.mkdtemp(prefix="verif_ex_")
    os.chdir(work)
    try:
        for nm in names:
            found = sorted(glob.glob(os.path.join(exdir, nm + "*.py")))
            if not found:
                continue
            path = found[0]
            reset_manager()
            tracer.take()
            outcome = "ok"
            with contextlib.redirect_stdout(io.StringIO()), \
                    contextlib.redirect_stderr(io.StringIO()):
                try:
                    runpy.run_path(path, run_name="__main__")
                except BaseException as e:
                    outcome = type(e).__name__
            RAN[0] += 1
            over = getattr(tracer, "overflow", False)
            ev = tracer.take()
            try:
                import matplotlib.pyplot as plt
                plt.close("all")
            except Exception:
                pass
            if over:
                skipped += 1
                continue
            if ev:
                traces.append(ev)
                labels.append(os.path.basename(path))
                outcomes.append(outcome)
    finally:
        os.chdir(cwd)
        shutil.rmtree(work, ignore_errors=True)
        reset_manager()
    return traces, labels, outcomes, skipped
