# -*- coding: utf-8 -*-
"""Runs unit tests of the repository inside the check process under the
run-time tracers, one recorded trace per test method, so that TLC can
validate every primitive transition of the units / basis management that
the repository's own tests exercise (their own assertions do not look at
that state)."""
import io
import os
import sys
import unittest
import contextlib

REPO = os.environ.get("VERIF_REPO", "/repo")

QUICK_DIRS = ["tests/unit/core", "tests/unit/qm/hilbertspace",
              "tests/unit/qm/corfunctions"]
THOROUGH_DIRS = QUICK_DIRS + ["tests/unit/qm/propagators",
                              "tests/unit/qm/liouvillespace",
                              "tests/unit/builders",
                              "tests/unit/spectroscopy"]


def _iter_tests(suite):
    for t in suite:
        if isinstance(t, unittest.TestSuite):
            for x in _iter_tests(t):
                yield x
        else:
            yield t


def reset_manager():
    from quantarhei.core.managers import Manager
    man = Manager()
    man.current_units["energy"] = "1/fs"
    man.current_units["frequency"] = "1/fs"
    man.current_units["length"] = "A"
    man._saved_units = {}
    man._in_eu_count = 0
    man._in_energy_units_context = False
    man.basis_stack = [0]
    man.basis_transformations = [1]
    man.basis_registered = {}
    man._in_eigenbasis_of_context = False
    man.parallel_conf = None


def run_under(tracer, thorough=False, limit=None):
    """Returns (traces, labels, skipped).  `tracer` must be installed."""
    traces, labels, skipped = [], [], 0
    dirs = THOROUGH_DIRS if thorough else QUICK_DIRS
    loader = unittest.TestLoader()
    cwd = os.getcwd()
    os.chdir(REPO)
    try:
        for d in dirs:
            try:
                suite = loader.discover(os.path.join(REPO, d),
                                        pattern="*test*.py",
                                        top_level_dir=REPO)
            except Exception:
                continue
            for t in _iter_tests(suite):
                if t.__class__.__name__ == "_FailedTest":
                    continue
                reset_manager()
                tracer.take()
                res = unittest.TestResult()
                with contextlib.redirect_stdout(io.StringIO()), \
                        contextlib.redirect_stderr(io.StringIO()):
                    try:
                        t.run(res)
                    except BaseException:
                        pass
                over = getattr(tracer, "overflow", False)
                ev = tracer.take()
                if over:
                    skipped += 1
                    continue
                if ev:
                    traces.append(ev)
                    labels.append(t.id())
                if limit and len(traces) >= limit:
                    return traces, labels, skipped
    finally:
        os.chdir(cwd)
        reset_manager()
    return traces, labels, skipped
