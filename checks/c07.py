# -*- coding: utf-8 -*-
"""C07 — operator form, tensor form and exact limits of a tensor agree.

S  specs/TensorAlgebra.tla (ApplyOp = ApplyTensor o RTensor, covariance under
   unitary monomial transformations), specs/TDIndex.tla (+ TDIndexTrace)
T  TLC: operator form = tensor form on every basis triple (K, L, rho) of
   dimension 2 (3) => for all inputs; TD index walk in range for all
   configurations with the propagation axis inside the bath axis
H  tables: the real operator-form apply() and tensor-form apply() on the
   basis triples (==); recorded traces: the time indices with which the real
   propagator slices a TD tensor (instrumented array) validated by TLC;
   sampled: apply / conversion / propagation agreement of both forms inside
   and outside eigenbasis_of(H) (Redfield TI, TD, Lindblad), TD tensor = 0 at
   t = 0 and = TI tensor at the last index, analytic pure dephasing for
   uncoupled sites within the time-step error.
"""
import math

from harness.common import Check, MachineryFailure
from harness import tensors as T


def main():
    ck = Check("C07")
    import numpy
    import quantarhei as qr
    from quantarhei.qm import (RedfieldRelaxationTensor,
                               TDRedfieldRelaxationTensor, LindbladForm,
                               ReducedDensityMatrixPropagator)
    from quantarhei.qm.liouvillespace.superoperator import SuperOperator

    rng = numpy.random.RandomState(ck.seed)
    dim = 3 if ck.thorough else 2
    tables = T.load_tensor_tables(
        ck, dim, "TensorAlgebra_3.cfg" if ck.thorough else "TensorAlgebra.cfg")
    ck.tlc("TDIndex", "TDIndex.cfg", workers=8)
    # unbounded: TLAPS proves for EVERY propagation length, refinement,
    # stride and tensor length (propagation axis inside the bath axis) that
    # no read leaves the tensor and every read uses the slice one bath step
    # after the state time; TDIndex.tla and TDIndexProof.tla share their
    # operators (TDIndexOps.tla)
    proved, total = ck.tlaps("TDIndexProof", deps=("TDIndexOps",))
    if proved != total or total < 60:
        raise MachineryFailure("TLAPS: %d of %d obligations of TDIndexProof "
                               "proved" % (proved, total))
    ck.note("TLAPS: all %d obligations of TDIndexProof proved (index walk in "
            "range for every configuration)" % total)
    if ck.thorough:
        bad, tot = ck.tlaps("TDIndexProof", deps=("TDIndexOps",), mutate=(
            "FitsIn(ntprop, nref, stride, ntens)",
            "FitsIn(ntprop, nref, stride, ntens + 1)"))
        if bad == tot:
            raise MachineryFailure("TLAPS proved the index walk for an axis "
                                   "that does not fit")

    # -------------------------------- basis triples: both forms of apply()
    N = dim
    rhos = []
    for i in range(N):
        for j in range(N):
            rhos.append(T.unit(N, i, j, 1.0, dtype=complex))
            rhos.append(T.unit(N, i, j, 1j, dtype=complex))
    for (ki, kj, li, lj, im), Rt in sorted(tables.items()):
        K = T.unit(N, ki, kj)
        L = T.unit(N, li, lj, 1j if im else 1.0, dtype=complex)
        rp = dict(kind="basis-triple", N=N, K=[ki, kj], L=[li, lj], imag=im)
        ck.traces_validated += 1
        fake = T.fake_redfield(N, 1, as_operators=True)
        fake.Km = K[None]
        fake.Lm = L[None]
        fake.Ld = numpy.conj(L.T)[None]
        so = SuperOperator(data=Rt.copy())
        import io
        import contextlib
        for rho in rhos:
            want = numpy.einsum('abcd,cd->ab', Rt, rho)
            with ck.guarded("operator-equals-tensor", "apply", rp, rp):
                with contextlib.redirect_stdout(io.StringIO()):
                    got_op = RedfieldRelaxationTensor.apply(
                        fake, T.Holder(rho.copy())).data
                got_t = so.apply(qr.qm.Operator(data=rho.copy())).data
                ck.case("operator-equals-tensor",
                        (ki, kj, li, lj, im, rho.tobytes()))
                if not numpy.array_equal(got_op, got_t):
                    ck.violation("operator-equals-tensor", "basis-triple",
                                 dict(rp, rho=rho.tolist(),
                                      op=got_op.tolist(), ten=got_t.tolist()),
                                 rp)
                elif not numpy.array_equal(got_op, want):
                    ck.model_drift("apply differs from the specified action "
                                   "for %r" % rp)

    # ------------------------------------------------------- sampled systems
    nsys = 6 if ck.thorough else 2
    # sites that share bath objects in every pattern (all distinct, all the
    # same, returning to an earlier one)
    patterns = [None, None, [0, 1, 0], [0, 0, 0], [0, 1, 1, 0], [0, 1, 2, 1]]
    sysl = [(s, None) for s in range(nsys)] + \
        [(nsys + i, p) for i, p in enumerate(patterns[2:] if ck.thorough
                                             else patterns[2:3])]
    for s, share in sysl:
        Nm = len(share) if share else int(rng.randint(2, 4))
        ag, ta = T.build_aggregate(qr, rng, Nm, Nt=200, dt=1.0, share=share)
        ham = ag.get_Hamiltonian()
        n = ham.dim
        A0 = rng.randn(n, n) + 1j * rng.randn(n, n)
        v = rng.randn(n) + 1j * rng.randn(n)
        v /= numpy.linalg.norm(v)
        rho0 = numpy.outer(v, v.conj())
        for theory, td in (("standard_Redfield", False),
                           ("standard_Redfield", True),
                           ("Lindblad", False)):
            rp = dict(kind="system", seed=ck.seed, system=s, N=Nm,
                      theory=theory, td=td, shared_baths=share)
            with ck.guarded("forms-agree", theory, rp, rp):
                if theory == "Lindblad":
                    ops, rates = [], []
                    for k in range(2):
                        ops.append(qr.qm.Operator(
                            data=rng.randn(n, n) * (rng.rand(n, n) < 0.5)))
                        rates.append(float(rng.uniform(0.001, 0.02)))
                    sbi = qr.qm.SystemBathInteraction(sys_operators=ops,
                                                      rates=tuple(rates))
                    Rop = LindbladForm(ham, sbi, as_operators=True)
                    Rte = LindbladForm(ham, sbi, as_operators=False)
                    H1 = H2 = ham
                else:
                    Rop, H1 = ag.get_RelaxationTensor(
                        ta, relaxation_theory=theory, time_dependent=td,
                        as_operators=True)
                    Rte, H2 = ag.get_RelaxationTensor(
                        ta, relaxation_theory=theory, time_dependent=td,
                        as_operators=False)
                # action on an arbitrary operator, inside and outside
                if not td:
                    import io
                    import contextlib
                    Bc = numpy.random.RandomState(7 * n + s).randn(n, n) + \
                        1j * numpy.random.RandomState(11 * n + s).randn(n, n)
                    Acx = qr.qm.SelfAdjointOperator(
                        data=(Bc + Bc.conj().T) / 2)
                    for where in ("outside", "inside", "inside-complex"):
                        with contextlib.redirect_stdout(io.StringIO()):
                            if where != "outside":
                                # the eigenbasis of H (real orthogonal S) and
                                # of a complex Hermitian operator (unitary S)
                                with qr.eigenbasis_of(
                                        ham if where == "inside" else Acx):
                                    A = qr.qm.Operator(data=A0.copy())
                                    r1 = Rop.apply(A)
                                    r2 = Rte.apply(A)
                                    d1 = numpy.array(r1.data)
                                    d2 = numpy.array(r2.data)
                            else:
                                A = qr.qm.Operator(data=A0.copy())
                                d1 = numpy.array(Rop.apply(A).data)
                                d2 = numpy.array(Rte.apply(A).data)
                        sc = max(float(numpy.abs(d2).max()), 1e-300)
                        e = float(numpy.abs(d1 - d2).max()) / sc
                        ck.case("forms-agree:apply", (s, theory, where),
                                sample=dict(rp, where=where, err=e))
                        if e > 1e-10:
                            ck.violation("operator-equals-tensor",
                                         "apply:%s:%s" % (theory, where),
                                         dict(rp, where=where, err=e), rp)
                # propagation with both forms, with the default expansion
                # and with another order of it
                for meth in (None, ("short-exp-2", "short-exp-6")[s % 2]):
                    evs = []
                    for RT, HH in ((Rop, H1), (Rte, H2)):
                        prop = ReducedDensityMatrixPropagator(ta, HH,
                                                              RTensor=RT)
                        r = qr.ReducedDensityMatrix(data=rho0.copy())
                        if meth is None:
                            evs.append(numpy.array(prop.propagate(r).data))
                        else:
                            evs.append(numpy.array(prop.propagate(
                                r, method=meth).data))
                    e = float(numpy.abs(evs[0] - evs[1]).max())
                    ck.case("forms-agree:propagation", (s, theory, td, meth),
                            sample=dict(rp, method=meth, err=e))
                    if e > 1e-10:
                        ck.violation("operator-equals-tensor",
                                     "propagation:%s:td=%s:%s" % (
                                         theory, td, meth or "default"),
                                     dict(rp, method=meth, err=e), rp)
                # conversion
                Rop.convert_2_tensor()
                with qr.eigenbasis_of(ham):
                    c1 = numpy.array(Rop.data)
                    c2 = numpy.array(Rte.data)
                sc = max(float(numpy.abs(c2).max()), 1e-300)
                e = float(numpy.abs(c1 - c2).max()) / sc
                ck.case("forms-agree:conversion", (s, theory, td))
                if e > 1e-12:
                    ck.violation("operator-equals-tensor",
                                 "conversion:%s:td=%s" % (theory, td),
                                 dict(rp, err=e), rp)
                # conversion as the FIRST thing done with a fresh
                # operator-form object inside a basis context (of the
                # Hamiltonian and of another operator), read there and after
                # the context is left
                if True:
                    Bm = numpy.random.RandomState(n + s).randn(n, n) + \
                        1j * numpy.random.RandomState(3 * n + s).randn(n, n)
                    Aop = qr.qm.SelfAdjointOperator(
                        data=(Bm + Bm.conj().T) / 2)
                    for cname, cop in (("H", ham), ("A", Aop)):
                        if theory == "Lindblad":
                            Rfresh = LindbladForm(ham, sbi, as_operators=True)
                        else:
                            Rfresh, _h = ag.get_RelaxationTensor(
                                ta, relaxation_theory=theory,
                                time_dependent=td, as_operators=True)
                        with qr.eigenbasis_of(cop):
                            Rfresh.convert_2_tensor()
                            c1 = numpy.array(Rfresh.data)
                            c2 = numpy.array(Rte.data)
                        c3 = numpy.array(Rfresh.data)
                        c4 = numpy.array(Rte.data)
                        sc = max(float(numpy.abs(c2).max()), 1e-300)
                        e = max(float(numpy.abs(c1 - c2).max()),
                                float(numpy.abs(c3 - c4).max())) / sc
                        ck.case("forms-agree:conversion-in-context",
                                (s, theory, cname), sample=dict(
                                    rp, context=cname, err=e))
                        if e > 1e-10:
                            ck.violation(
                                "operator-equals-tensor",
                                "conversion-first-in-context:%s:td=%s" % (
                                    theory, td),
                                dict(rp, context=cname, err=e), rp)
        # time-dependent tensor: zero at t = 0, equals TI tensor at the end
        rp = dict(kind="td-limits", seed=ck.seed, system=s, N=Nm)
        with ck.guarded("td-limits", "td", rp, rp):
            TD, _ = ag.get_RelaxationTensor(
                ta, relaxation_theory="standard_Redfield", time_dependent=True)
            TI, _ = ag.get_RelaxationTensor(
                ta, relaxation_theory="standard_Redfield")
            with qr.eigenbasis_of(ham):
                dtd = numpy.array(TD.data)
                dti = numpy.array(TI.data)
            sc = float(numpy.abs(dti).max())
            e0 = float(numpy.abs(dtd[0]).max()) / sc
            e1 = float(numpy.abs(dtd[-1] - dti).max()) / sc
            ck.case("td-limits", s, sample=dict(rp, at0=e0, atend=e1))
            if e0 > 1e-12:
                ck.violation("td-zero-at-zero", "td", dict(rp, err=e0), rp)
            if e1 > 1e-10:
                ck.violation("td-last-equals-ti", "td", dict(rp, err=e1), rp)

        # the same two limits when the bath memory is cut off at a time
        # inside the axis (constructor option cutoff_time), both forms
        for ci in range(2):
            kc = int(rng.randint(len(ta.data) // 5, len(ta.data) - 1))
            tc = float(ta.data[kc]) + (0.0 if ci == 0 else 0.37 * ta.step)
            for asop in (False, True):
                rp = dict(kind="td-limits-cutoff", seed=ck.seed, system=s,
                          N=Nm, cutoff_time=tc, as_operators=asop)
                with ck.guarded("td-limits", "td-cutoff", rp, rp):
                    sbi_c = ag.get_SystemBathInteraction()
                    TDc = TDRedfieldRelaxationTensor(
                        ham, sbi_c, cutoff_time=tc, as_operators=asop)
                    TIc = RedfieldRelaxationTensor(
                        ham, sbi_c, cutoff_time=tc, as_operators=asop)
                    if asop:
                        pairs = [(numpy.array(TDc.Lm), numpy.array(TIc.Lm)),
                                 (numpy.array(TDc.Ld), numpy.array(TIc.Ld))]
                    else:
                        with qr.eigenbasis_of(ham):
                            pairs = [(numpy.array(TDc.data),
                                      numpy.array(TIc.data))]
                    e0 = e1 = 0.0
                    for dtd, dti in pairs:
                        sc = max(float(numpy.abs(dti).max()), 1e-300)
                        e0 = max(e0, float(numpy.abs(dtd[0]).max()) / sc)
                        e1 = max(e1, float(numpy.abs(dtd[-1] - dti).max())
                                 / sc)
                    ck.case("td-limits-cutoff", (s, ci, asop),
                            sample=dict(rp, at0=e0, atend=e1))
                    if e0 > 1e-12:
                        ck.violation("td-zero-at-zero", "td-cutoff",
                                     dict(rp, err=e0), rp)
                    if e1 > 1e-10:
                        ck.violation("td-last-equals-ti", "td-cutoff",
                                     dict(rp, err=e1), rp)

    # ---------------- recorded TD index walks validated against TDIndex
    class LoggingArray(numpy.ndarray):
        log = None

        def __getitem__(self, item):
            if isinstance(item, tuple) and len(item) == 5 and \
                    isinstance(item[0], (int, numpy.integer)):
                if LoggingArray.log is not None:
                    LoggingArray.log.append(int(item[0]))
            return super().__getitem__(item)

    traces = []
    ag, tab = T.build_aggregate(qr, rng, 2, Nt=61, dt=1.0)
    ham = ag.get_Hamiltonian()
    TD, HH = ag.get_RelaxationTensor(tab, relaxation_theory="standard_Redfield",
                                     time_dependent=True)
    with qr.eigenbasis_of(ham):
        _ = TD.data
    cfgs = [(61, 1.0, 1), (31, 2.0, 1), (31, 2.0, 2), (21, 3.0, 3),
            (21, 3.0, 1), (11, 6.0, 2), (11, 6.0, 3), (7, 10.0, 5),
            (16, 4.0, 4), (13, 5.0, 1)]
    for (ntp, dtp, nref) in cfgs:
        tap = qr.TimeAxis(0.0, ntp, dtp)
        rp = dict(kind="td-walk", ntprop=ntp, dt=dtp, nref=nref)
        with ck.guarded("td-index-walk", "propagate", rp, rp):
            prop = ReducedDensityMatrixPropagator(tap, HH, RTensor=TD)
            prop.setDtRefinement(nref)
            rho = qr.ReducedDensityMatrix(dim=ham.dim)
            rho.data[1, 1] = 1.0
            old = TD._data
            TD._data = old.view(LoggingArray)
            LoggingArray.log = []
            try:
                prop.propagate(rho)
            finally:
                reads = LoggingArray.log
                LoggingArray.log = None
                TD._data = old
            stride = int(round(dtp / 1.0)) // nref
            tr = [dict(ev="cfg", ntprop=ntp, nref=nref, stride=stride,
                       cut=61, ntens=61)]
            tr += [dict(ev="read", idx=i) for i in reads]
            traces.append(tr)
            ck.case("td-index-walk", (ntp, dtp, nref), sample=dict(
                rp, reads=reads[:8], nreads=len(reads)))
    rej = ck.validate_traces("TDIndexTrace", "TDIndexTrace.cfg", traces)
    if rej:
        tr = traces[rej["tid"] - 1]
        ck.violation("td-index-walk", "trace:" + str(rej["violated"]),
                     dict(cfg=tr[0], event_index=rej["l"],
                          reads=[e["idx"] for e in tr[1:]][:40],
                          state=rej["state"][:400]), dict(trace=tr))
    # negative control of the binding
    bad = [[dict(ev="cfg", ntprop=3, nref=1, stride=1, cut=10, ntens=10),
            dict(ev="read", idx=1), dict(ev="read", idx=3)]]
    n0 = ck.traces_validated
    if not ck.validate_traces("TDIndexTrace", "TDIndexTrace.cfg", bad):
        raise MachineryFailure("corrupted index walk accepted")
    ck.traces_validated = n0

    # ---------------- uncoupled sites: analytic pure dephasing
    nana = 5 if ck.thorough else 2
    for s in range(nana):
        dt = float(rng.choice([0.5, 1.0]))
        Nt = int(200 / dt)
        reorg = rng.uniform(10, 60, size=2)
        cort = rng.uniform(40, 150, size=2)
        ag, ta = T.build_aggregate(qr, rng, 2, J=[[0, 0], [0, 0]],
                                   reorg=reorg, cortime=cort, Nt=Nt, dt=dt)
        ham = ag.get_Hamiltonian()
        rp = dict(kind="pure-dephasing", seed=ck.seed, sample=s, dt=dt,
                  reorg=reorg.tolist(), cortime=cort.tolist())
        with ck.guarded("analytic-dephasing", "td-redfield", rp, rp):
            TD, HH = ag.get_RelaxationTensor(
                ta, relaxation_theory="standard_Redfield",
                time_dependent=True)
            prop = ReducedDensityMatrixPropagator(ta, HH, RTensor=TD)
            rho = qr.ReducedDensityMatrix(dim=3)
            rho.data[:, :] = 1.0 / 3.0
            rt = prop.propagate(rho)
            dat = numpy.array(rt.data)
            in_rwa = bool(getattr(rt, "is_in_rwa", False))
            worst, bound = 0.0, 0.0
            t = ta.data
            for a in (0, 1):
                ct = ag.monomers[a].get_egcf((0, 1))
                ct = numpy.array(ct) if not hasattr(ct, "data") else \
                    numpy.array(ct.data)
                # Lambda(t) = int_0^t C, g(t) = int_0^t Lambda  (trapezoid)
                lam = numpy.concatenate([[0], numpy.cumsum(
                    (ct[1:] + ct[:-1]) / 2) * dt])
                g = numpy.concatenate([[0], numpy.cumsum(
                    (lam[1:] + lam[:-1]) / 2) * dt])
                w = ham.data[a + 1, a + 1]
                if in_rwa:
                    w = w - ham.rwa_energies[a + 1]
                ref = numpy.exp(-1j * w * t - g) / 3.0
                worst = max(worst, float(numpy.abs(dat[:, a + 1, 0] -
                                                   ref).max()))
                tv = float(numpy.abs(numpy.diff(lam)).sum())
                bound = max(bound, dt * tv / 3.0)
            ck.case("analytic-dephasing", s, sample=dict(rp, err=worst,
                                                         bound=bound))
            if worst > 3 * bound + 1e-6:
                ck.violation("analytic-dephasing", "td-redfield",
                             dict(rp, err=worst, bound=bound), rp)

    ck.assume("operator form = tensor form is decided for all inputs of "
              "dimension 2 (3) by trilinearity on basis triples; sampled "
              "systems N = 2..3")
    ck.assume("analytic dephasing tolerance: 3 x dt x total variation of "
              "Lambda(t) = int_0^t C (the propagator samples the tensor one "
              "bath step ahead of the state time, a rectangle rule) + 1e-6")
    ck.assume("TD index walk is validated for propagation axes inside the "
              "bath axis; tensors with a cut-off time are not propagated (the "
              "library raises IndexError past the cut-off)")
    return ck.finish()
