# -*- coding: utf-8 -*-
"""C17 — population (master-equation) dynamics conserve and match the
exponential.

S  specs/RateMatrix.tla (set_rate histories), specs/RateMatrixTrace.tla
T  TLC exhaustive over all histories in the bound; -simulate behaviours
H  spec->code: every simulated history replayed on the real RateMatrix, the
   whole matrix compared after every call;
   code->spec: long random histories recorded from the real RateMatrix and
   validated by TLC against the trace specification (every invariant at
   every step);
   numeric clauses (sum conservation, positivity in the admissible regime,
   distance to expm within the derived truncation bound, propagation matrix
   on sub-axes) on sampled generators against scipy.linalg.expm.
"""
import os
import math
import tempfile
import shutil

from harness.common import Check, MachineryFailure
from harness import tlaparse


def main():
    ck = Check("C17")
    import numpy
    import scipy.linalg
    import quantarhei as qr
    from quantarhei.qm.liouvillespace.rates.ratematrix import RateMatrix
    from quantarhei.qm.propagators.poppropagator import PopulationPropagator

    rng = numpy.random.RandomState(ck.seed)

    # ----------------------------------------------------------- S, T: TLC
    cfg = "RateMatrix_large.cfg" if ck.thorough else "RateMatrix.cfg"
    res = ck.tlc("RateMatrix", cfg, coverage=True, workers=16)
    for act in ("SetRate", "SetDiagonal"):
        if res["coverage"].get(act, (0, 0))[1] == 0:
            raise MachineryFailure("vacuous: action %s never taken" % act)

    # ------------------------------------------------ spec -> code replay
    tmp = tempfile.mkdtemp(prefix="c17_")
    try:
        nsim = 1500 if ck.thorough else 250
        pref = os.path.join(tmp, "tr")
        ck.tlc("RateMatrix", "RateMatrix_sim.cfg",
               simulate="file=%s,num=%d" % (pref, nsim), depth=12, workers=1,
               seed=ck.seed + 7, count=False)
        behs = tlaparse.load_behaviours(pref)
    finally:
        shutil.rmtree(tmp, ignore_errors=True)
    if len(behs) < nsim // 2:
        raise MachineryFailure("too few behaviours")
    for beh in behs:
        dim = len(beh[0][1]["K"])
        rm = RateMatrix(dim=dim)
        hist = []
        prev = beh[0][1]
        for act, st in beh[1:]:
            Ks, Kp = st["K"], prev["K"]
            As, Ap = st["assigned"], prev["assigned"]
            if act == "SetRate":
                n, m, v = st["_args"]
                n, m = n - 1, m - 1
                rm.set_rate((n, m), float(v))
                hist.append(("set", n, m, v))
            elif act == "SetDiagonal":
                n = st["_args"][0] - 1
                raised = False
                try:
                    rm.set_rate((n, n), 1.0)
                except Exception:
                    raised = True
                hist.append(("diag", n))
                if not raised:
                    ck.violation("refusal", "diagonal-not-refused",
                                 dict(history=hist), dict(history=hist))
            else:
                raise MachineryFailure("unknown action %r" % act)
            got = rm.data.tolist()
            if got != [[float(x) for x in row] for row in Ks]:
                cs = numpy.abs(rm.data.sum(axis=0)).max()
                kept = all(rm.data[a, b] == (0 if As[a][b] == -1000000 else As[a][b])
                           for a in range(dim) for b in range(dim) if a != b)
                if cs != 0 or not kept:
                    ck.violation("set_rate-history", "replay-mismatch",
                                 dict(history=hist, got=got, want=Ks),
                                 dict(history=hist))
                else:
                    ck.model_drift("matrix differs from spec after %r" % hist)
                break
            prev = st
        ck.case("set_rate-replay", tuple(hist), nontrivial=len(hist) > 1,
                sample=dict(history=hist, final=rm.data.tolist()))
        ck.traces_validated += 1

    # -------------------------------------------- code -> spec trace validation
    ntr = 400 if ck.thorough else 60
    for dim in (2, 3, 4):
        traces = []
        for t in range(ntr):
            if t % 3 == 0:
                rm = RateMatrix(dim=dim)
            else:
                off = rng.randint(0, 6, size=(dim, dim)).astype(float)
                numpy.fill_diagonal(off, 0.0)
                off -= numpy.diag(off.sum(axis=0))
                rm = RateMatrix(data=off.copy())
            tr = [{"ev": "init", "K": _imat(rm.data)}]
            for k in range(rng.randint(3, 25 if ck.thorough else 12)):
                n, m = int(rng.randint(dim)), int(rng.randint(dim))
                if rng.rand() < 0.85 and n == m:
                    m = (n + 1) % dim
                v = int(rng.randint(-2, 10))
                raised = False
                try:
                    rm.set_rate((n, m), float(v))
                except Exception:
                    raised = True
                tr.append({"ev": "set_rate", "n": n + 1, "m": m + 1, "v": v,
                           "raised": raised, "K": _imat(rm.data)})
            traces.append(tr)
            ck.case("set_rate-trace", (dim, t), nontrivial=len(tr) > 3,
                    sample=tr[:4])
        rej = ck.validate_traces("RateMatrixTrace",
                                 "RateMatrixTrace_%d.cfg" % dim, traces)
        if rej:
            tr = traces[rej["tid"] - 1]
            ck.violation("set_rate-history", "trace-rejected:" +
                         str(rej["violated"]),
                         dict(event_index=rej["l"], violated=rej["violated"],
                              event=tr[min(rej["l"], len(tr)) - 1],
                              state=rej["state"][:600]),
                         dict(trace=tr))

    # negative control of the binding: a corrupted trace must be rejected
    bad = [[{"ev": "init", "K": [[0, 0], [0, 0]]},
            {"ev": "set_rate", "n": 1, "m": 2, "v": 3, "raised": False,
             "K": [[0, 3], [0, -2]]}]]
    n0 = ck.traces_validated
    rej = ck.validate_traces("RateMatrixTrace", "RateMatrixTrace_2.cfg", bad)
    ck.traces_validated = n0
    if not rej:
        raise MachineryFailure("corrupted trace accepted: binding is vacuous")

    # -------------------------------------------------------- numeric clauses
    nsamp = 600 if ck.thorough else 80
    for s in range(nsamp):
        N = int(rng.randint(2, 6))
        kmax = 10 ** rng.uniform(-3, -1)
        Kin = rng.rand(N, N) * kmax * (rng.rand(N, N) < 0.8)
        # spectra that a kinetic scheme typically has and a random matrix
        # never does: sequential chains with equal rates (not
        # diagonalisable), all rates equal (degenerate), absorbing states,
        # two identical uncoupled blocks
        shape = ("generic", "chain-equal", "all-equal", "absorbing",
                 "two-blocks", "generic")[s % 6] if s < 36 else "generic"
        if shape == "chain-equal":
            Kin = numpy.zeros((N, N))
            for n in range(N - 1):
                Kin[n + 1, n] = kmax
        elif shape == "all-equal":
            Kin = numpy.full((N, N), kmax)
        elif shape == "absorbing":
            Kin[:, 0] = 0.0
            Kin[0, 1:] = kmax
        elif shape == "two-blocks" and N >= 4:
            Kin = numpy.zeros((N, N))
            Kin[1, 0] = Kin[3, 2] = kmax
            Kin[0, 1] = Kin[2, 3] = kmax / 2
        rm = RateMatrix(dim=N)
        for n in range(N):
            for m in range(N):
                if n != m:
                    rm.set_rate((n, m), Kin[n, m])
        K = rm.data.copy()
        g = float(numpy.abs(K).sum(axis=0).max())      # ||K||_1
        if g == 0:
            continue
        gh = 10 ** rng.uniform(-1.5, 0.1)
        dt = gh / g
        Nt = int(rng.randint(5, 60))
        # (the axis of the propagator need not start at zero)
        t0 = (0.0, 3.0, -2.0, 0.0)[s % 4] * dt
        ta = qr.TimeAxis(t0, Nt, dt)
        p0 = rng.rand(N)
        p0 /= p0.sum()
        prop = PopulationPropagator(ta, rate_matrix=rm)
        # every sixth sample: all population on one state, written the way a
        # user may type it (integer list, integer array, float list)
        p0in = p0.copy()
        pform = "float-array"
        if s % 6 == 5:
            k0 = int(rng.randint(N))
            p0 = numpy.zeros(N)
            p0[k0] = 1.0
            pform = ("int-list", "int-array", "float-list")[(s // 6) % 3]
            if pform == "int-list":
                p0in = [int(x) for x in p0]
            elif pform == "int-array":
                p0in = p0.astype(int)
            else:
                p0in = [float(x) for x in p0]
        pops = numpy.array(prop.propagate(p0in))

        def actual_truncation(Km, pvec):
            """error the degree-4 expansion itself makes on this axis (the a
            priori bound below is an upper estimate of it and is very loose
            for steps of the order of the relaxation times)"""
            T_ = sum(numpy.linalg.matrix_power(Km * dt, l) /
                     math.factorial(l) for l in range(5))
            cur = numpy.asarray(pvec, dtype=float)
            worst_ = 0.0
            for k_, t_ in enumerate(ta.data):
                ex_ = scipy.linalg.expm(Km * (t_ - t0)).dot(
                    numpy.asarray(pvec, dtype=float))
                worst_ = max(worst_, float(numpy.abs(cur - ex_).sum()))
                cur = T_.dot(cur)
            return worst_
        # reference: spec'd Taylor polynomial and exact exponential
        L = 4
        T = sum(numpy.linalg.matrix_power(K * dt, l) / math.factorial(l)
                for l in range(L + 1))
        local = (g * dt) ** (L + 1) / math.factorial(L + 1) * math.exp(g * dt)
        growth, P = 1.0, numpy.eye(N)
        for k in range(Nt):
            P = T.dot(P)
            growth = max(growth, numpy.abs(P).sum(axis=0).max())
        bound = Nt * local * growth
        exact = numpy.array([scipy.linalg.expm(K * (t - t0)).dot(p0)
                             for t in ta.data])
        err = float(numpy.abs(pops - exact).sum(axis=1).max())
        sums = float(numpy.abs(pops.sum(axis=1) - 1.0).max())
        admissible = dt * numpy.abs(numpy.diag(K)).max() <= 1.0
        sample = dict(N=N, g_dt=g * dt, Nt=Nt, err=err, bound=bound,
                      p0_form=pform,
                      sum_defect=sums, admissible=bool(admissible),
                      min_pop=float(pops.min()))
        ck.case("sum-conserved", ("num", s), sample=sample)
        rp = dict(kind="propagate", K=K.tolist(), dt=dt, Nt=Nt,
                  p0=p0.tolist())
        if sums > 1e-12 * Nt:
            ck.violation("sum-conserved", "propagate", sample, rp)
        ck.case("matches-expm", ("num", s), sample=sample)
        etr = actual_truncation(K, p0)
        sample["expansion_error"] = etr
        if err > min(10 * bound, 3 * etr + 1e-10) + 1e-12:
            ck.violation("matches-expm", "propagate", sample, rp)
        if admissible:
            ck.case("non-negative", ("num", s), sample=sample)
            if pops.min() < -1e-14:
                ck.violation("non-negative", "propagate", sample, rp)
        if numpy.abs(pops[0] - numpy.asarray(p0, dtype=float)).max() != 0:
            ck.violation("initial-value-stored", "propagate", sample, rp)

        # the rate matrix object is edited after the first propagation:
        # the same propagator then follows the CURRENT rates
        if s % 3 == 0 and N >= 2:
            i0, j0 = 0, 1
            newv = float(K[i0, j0]) * 2.5 + 0.3 * kmax
            rm.set_rate((i0, j0), newv)
            K2 = numpy.array(rm.data)
            pops2 = numpy.array(prop.propagate(p0in))
            g2 = float(numpy.abs(K2).sum(axis=0).max())
            T2 = sum(numpy.linalg.matrix_power(K2 * dt, l) /
                     math.factorial(l) for l in range(L + 1))
            growth2, P2 = 1.0, numpy.eye(N)
            for k in range(Nt):
                P2 = T2.dot(P2)
                growth2 = max(growth2, numpy.abs(P2).sum(axis=0).max())
            bound2 = Nt * (g2 * dt) ** (L + 1) / math.factorial(L + 1) * \
                math.exp(g2 * dt) * growth2
            exact2 = numpy.array([scipy.linalg.expm(K2 * (t - t0)).dot(
                numpy.asarray(p0, dtype=float)) for t in ta.data])
            err2 = float(numpy.abs(pops2 - exact2).sum(axis=1).max())
            ck.case("matches-expm-after-edit", ("num", s),
                    sample=dict(N=N, err=err2, bound=bound2))
            if err2 > min(10 * bound2,
                          3 * actual_truncation(K2, p0) + 1e-10) + 1e-12:
                ck.violation("matches-expm", "propagate-after-set_rate",
                             dict(N=N, err=err2, bound=bound2),
                             dict(kind="propagate-after-edit", K=K.tolist(),
                                  K2=K2.tolist(), dt=dt, Nt=Nt))
            K = K2
            g = g2
        # propagation matrix on compatible sub-axes
        for regime in ("same-start", "commensurate", "incommensurate"):
            mult = int(rng.randint(1, 4))
            if regime == "same-start":
                shift = 0
            elif regime == "commensurate":
                shift = mult * int(rng.randint(1, 3))
            else:
                if mult == 1:
                    mult = 2
                shift = mult * int(rng.randint(0, 2)) + 1
            nsub = (Nt - 1 - shift) // mult
            if nsub < 2:
                continue
            ts = qr.TimeAxis(t0 + shift * dt, nsub, mult * dt)
            if not ts.is_subset_of(ta):
                continue             # float round-off in the axis test
            # also through the entry that returns the perturbative orders
            # in the transfer rates along with the matrix
            ncorr = (-1, 0, 2, 1)[(s + len(regime)) % 4]
            if ncorr < 0:
                U = prop.get_PropagationMatrix(ts)
            else:
                res = prop.get_PropagationMatrix(
                    ts, corrections=ncorr, exact=bool(s % 2))
                # (the perturbative orders handed out along with the
                # matrix are not part of the property)
                U = res[0] if isinstance(res, tuple) else res
            worst = 0.0
            for i, t in enumerate(ts.data):
                E = scipy.linalg.expm(K * (t - ta.data[0]))
                worst = max(worst, float(numpy.abs(U[:, :, i] - E).max()))
            smp = dict(N=N, regime=regime, mult=mult, shift=shift, err=worst,
                       shape=shape, corrections=ncorr)
            ck.case("propagation-matrix", (regime, s), sample=smp)
            if not worst <= 1e-9:
                ck.violation("propagation-matrix", "subaxis:%s:%s" % (
                    regime, shape), smp,
                             dict(kind="propmatrix", K=K.tolist(), dt=dt,
                                  Nt=Nt, shift=shift, mult=mult, nsub=nsub))

        # the propagator (and the rate matrix object it was given) after
        # the propagation matrices were requested: same dynamics as before
        pops3 = numpy.array(prop.propagate(p0in))
        exact3 = numpy.array([scipy.linalg.expm(K * (t - t0)).dot(
            numpy.asarray(p0, dtype=float)) for t in ta.data])
        g3 = float(numpy.abs(K).sum(axis=0).max())
        T3 = sum(numpy.linalg.matrix_power(K * dt, l) / math.factorial(l)
                 for l in range(L + 1))
        growth3, P3 = 1.0, numpy.eye(N)
        for k in range(Nt):
            P3 = T3.dot(P3)
            growth3 = max(growth3, numpy.abs(P3).sum(axis=0).max())
        bound3 = Nt * (g3 * dt) ** (L + 1) / math.factorial(L + 1) * \
            math.exp(g3 * dt) * growth3
        err3 = float(numpy.abs(pops3 - exact3).sum(axis=1).max())
        sums3 = float(numpy.abs(pops3.sum(axis=1) - 1.0).max())
        smp3 = dict(N=N, err=err3, bound=bound3, sum_defect=sums3)
        rp3 = dict(kind="propagate-after-matrices", K=K.tolist(), dt=dt,
                   Nt=Nt)
        ck.case("matches-expm-after-matrices", ("num", s), sample=smp3)
        # (after an edit of the rates the step may lie outside the stability
        # region of the expansion; the sum is then conserved relative to the
        # size of the numbers)
        if sums3 > 1e-12 * Nt * max(1.0, float(numpy.abs(pops3).max())):
            ck.violation("sum-conserved", "propagate-after-matrices", smp3,
                         rp3)
        if err3 > min(10 * bound3,
                      3 * actual_truncation(K, p0) + 1e-10) + 1e-12:
            ck.violation("matches-expm", "propagate-after-matrices", smp3,
                         rp3)

    axis_grid(ck, qr, numpy)

    ck.assume("TLC bound: dim 3, values 0..2(3), histories <= 4(6); traces "
              "of dim 2..4 with up to 25 calls are validated step by step")
    ck.assume("numeric clauses are sampled: tolerance 10 x derived truncation "
              "bound (n * (g h)^5/5! * e^(g h) * growth) + 1e-12; expm from "
              "scipy is the oracle")
    ck.assume("positivity asserted only for h*max|K_ii| <= 1, where the 4th "
              "order Taylor polynomial is entrywise non-negative (expansion "
              "in M = 1 + K h has coefficients 3/8, 1/3, 1/4, 0, 1/24)")
    return ck.finish()


def axis_grid(ck, qr, numpy):
    """AxisGrid.tla: the sub-axis test that get_PropagationMatrix relies on
    (is_subset_of / is_superset_of) is sound and, for axes with at least two
    points, complete; locate / nearest are the lower / nearest neighbour.
    The exported table is replayed into the real ValueAxis and TimeAxis."""
    import json
    import tempfile
    import shutil
    from quantarhei.core.valueaxis import ValueAxis
    cfg = "AxisGrid_large.cfg" if ck.thorough else "AxisGrid.cfg"
    tmp = tempfile.mkdtemp(prefix="axisgrid_")
    try:
        path = os.path.join(tmp, "table.json")
        ck.tlc("AxisGrid", cfg, workers=4, env={"TABLE_FILE": path})
        with open(path) as f:
            rows = json.load(f)["rows"]
    finally:
        shutil.rmtree(tmp, ignore_errors=True)
    ck.tlc("AxisGrid", "AxisGrid_defect.cfg", count=False,
           expect_violation="ISubsetSound")
    if len(rows) < 40:
        raise MachineryFailure("AxisGrid table too small")

    def mk(cls, a):
        # table values are in units of half a grid unit
        return cls(a["start"] / 2.0, a["len"], a["step"] / 2.0)
    for cls in (ValueAxis, qr.TimeAxis):
        axes = [mk(cls, r["axis"]) for r in rows]
        for i, r in enumerate(rows):
            a = axes[i]
            rp = dict(kind="axis", cls=cls.__name__, axis=r["axis"])
            with ck.guarded("subaxis-test", cls.__name__, rp, rp):
                for j, want in enumerate(r["subset_of"]):
                    got = bool(a.is_subset_of(axes[j]))
                    got2 = bool(axes[j].is_superset_of(a))
                    ck.case("subaxis-test", (cls.__name__, i, j),
                            nontrivial=bool(want))
                    if got != bool(want) or got2 != bool(want):
                        ck.violation(
                            "subaxis-test", "%s:is_subset_of" % cls.__name__,
                            dict(rp, other=rows[j]["axis"], got=got,
                                 got_superset=got2, specified=bool(want)),
                            dict(rp, other=rows[j]["axis"]))
            with ck.guarded("locate-nearest", cls.__name__, rp, rp):
                for vs, pr in r["probes"].items():
                    v = int(vs) / 2.0
                    try:
                        loc = a.locate(v)
                        got = dict(ok=True, locate=[int(loc[0]),
                                                    int(round(2 * loc[1]))],
                                   nearest=int(a.nearest(v)))
                    except Exception as e:
                        if "out of bounds" not in str(e):
                            raise
                        got = dict(ok=False, locate=[0, 0], nearest=0)
                    ck.case("locate-nearest", (cls.__name__, i, vs),
                            nontrivial=bool(pr["ok"]))
                    want = dict(ok=bool(pr["ok"]),
                                locate=[int(x) for x in pr["locate"]],
                                nearest=int(pr["nearest"]))
                    if got != want:
                        ck.violation("locate-nearest", cls.__name__,
                                     dict(rp, value=v, got=got,
                                          specified=want),
                                     dict(rp, value=v))
    ck.traces_validated += len(rows)
    # the same axes with steps that are not exactly representable (the table
    # is invariant under a common scale): every grid point is located at its
    # own index, every midpoint at the index below it
    for f in (0.45, 0.85, 1.0 / 3.0):
        for cls in (ValueAxis, qr.TimeAxis):
            for r in rows:
                a = r["axis"]
                ax = cls(a["start"] * f, a["len"], a["step"] * f)
                dd = numpy.array(ax.data)
                rp = dict(kind="axis-scaled", cls=cls.__name__, axis=a,
                          scale=f)
                with ck.guarded("locate-nearest", cls.__name__ + ":scaled",
                                rp, rp):
                    bad = None
                    for k in range(a["len"]):
                        lk = int(ax.locate(float(dd[k]))[0])
                        nk = int(ax.nearest(float(dd[k])))
                        if lk != k or nk != k:
                            bad = dict(index=k, value=float(dd[k]),
                                       located=lk, nearest=nk)
                            break
                        if k + 1 < a["len"]:
                            mid = float((dd[k] + dd[k + 1]) / 2)
                            lm = int(ax.locate(mid)[0])
                            if lm != k:
                                bad = dict(index=k, value=mid, located=lm,
                                           midpoint=True)
                                break
                    ck.case("locate-nearest", (cls.__name__, "scaled", f,
                                               a["start"], a["len"],
                                               a["step"]))
                    if bad:
                        ck.violation("locate-nearest",
                                     cls.__name__ + ":grid-point-of-a-"
                                     "non-representable-step",
                                     dict(rp, **bad), rp)


def _imat(a):
    out = []
    for row in a:
        r = []
        for x in row:
            if float(x) != int(round(float(x))):
                raise MachineryFailure("non-integer entry in trace")
            r.append(int(round(float(x))))
        out.append(r)
    return out
