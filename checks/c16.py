# -*- coding: utf-8 -*-
"""C16 — hierarchical equations: complete index set, consistent links,
valid states.

S  specs/Hierarchy.tla: generate_indices as a machine (one action per inner
   loop iteration), the numpy tables (hinds, levels, levlengths, nm1, np1) as
   operators of the final state; invariants CompleteOnce, LevelByLevel,
   LinksInverse, NeighbourTests; termination.
T  TLC over all (baths, depth) in the bound; one JSON table per instance.
H  tables compared entry by entry with a real KTHierarchy for every
   (baths, depth); the property's clauses are also evaluated directly on the
   real tables; Gamma against sum n_k gamma_k; sampled numeric clauses
   (trace/Hermiticity at all times, zero-coupling limit = closed dynamics,
   convergence with depth to the analytic pure-dephasing solution).
"""
import os
import io
import json
import math
import itertools
import contextlib
import tempfile
import shutil

from harness.common import Check, MachineryFailure


def main():
    ck = Check("C16")
    import numpy
    import scipy.linalg
    import quantarhei as qr
    from quantarhei.qm.liouvillespace.heom import (KTHierarchy,
                                                   KTHierarchyPropagator)

    rng = numpy.random.RandomState(ck.seed)

    def build(N, J=0.0, reorg=30.0, cortime=50.0, T=300.0, en=None, Nt=200,
              dt=1.0, Jmat=None):
        ta = qr.TimeAxis(0.0, Nt, dt)
        with qr.energy_units("1/cm"):
            mols = []
            for i in range(N):
                m = qr.Molecule([0.0, (en[i] if en is not None
                                       else 10000.0 + 100.0 * i)])
                rr = reorg[i] if hasattr(reorg, "__len__") else reorg
                cc = cortime[i] if hasattr(cortime, "__len__") else cortime
                cf = qr.CorrelationFunction(ta, dict(
                    ftype="OverdampedBrownian", reorg=rr, cortime=cc, T=T,
                    matsubara=5))
                m.set_transition_environment((0, 1), cf)
                mols.append(m)
            agg = qr.Aggregate(mols)
            for i in range(N):
                for j in range(i + 1, N):
                    agg.set_resonance_coupling(
                        i, j, J if Jmat is None else Jmat[i][j])
        agg.build()
        return agg, ta

    def hierarchy(ham, sbi, depth):
        with contextlib.redirect_stdout(io.StringIO()):
            return KTHierarchy(ham, sbi, depth)

    # ------------------------------------------------------------------ TLC
    cfg = "Hierarchy_large.cfg" if ck.thorough else "Hierarchy.cfg"
    tmp = tempfile.mkdtemp(prefix="c16_")
    try:
        res = ck.tlc("Hierarchy", cfg, coverage=True, workers=4,
                     env={"TABLE_DIR": tmp})
        for act in ("GenStep", "LevelDone", "Finish"):
            if res["coverage"].get(act, (0, 0))[1] == 0:
                raise MachineryFailure("vacuous: action %s never taken" % act)
        # deep hierarchies (indices with two digits)
        ck.tlc("Hierarchy", "Hierarchy_deep.cfg", workers=2,
               env={"TABLE_DIR": tmp}, timeout=1500)
        tables = {}
        for f in os.listdir(tmp):
            if f.startswith("h_"):
                row = json.load(open(os.path.join(tmp, f)))
                tables[(row["nbath"], row["depth"])] = row
    finally:
        shutil.rmtree(tmp, ignore_errors=True)
    if len(tables) < 12:
        raise MachineryFailure("tables missing: %d" % len(tables))

    # --------------------------------------------- tables vs real KTHierarchy
    systems = {}
    # (for an odd number of baths the depths are requested in DESCENDING
    # order from ONE aggregate through its own entry point get_KTHierarchy;
    # otherwise ascending through the constructor)
    for (N, D), row in sorted(tables.items(),
                              key=lambda kv: (kv[0][0], -kv[0][1]
                                              if kv[0][0] % 2 else kv[0][1])):
        if N not in systems:
            agg, ta = build(N, J=30.0,
                            cortime=[40.0 + 17 * i for i in range(N)],
                            reorg=[20.0 + 7 * i for i in range(N)])
            systems[N] = (agg.get_Hamiltonian(),
                          agg.get_SystemBathInteraction(), agg)
        ham, sbi, agg_n = systems[N]
        if N % 2:
            with contextlib.redirect_stdout(io.StringIO()):
                Hy = agg_n.get_KTHierarchy(depth=D)
        else:
            Hy = hierarchy(ham, sbi, D)
        real = dict(hsize=int(Hy.hsize), hinds=Hy.hinds.tolist(),
                    levels=Hy.levels.tolist(),
                    levlengths=Hy.levlengths.tolist(),
                    nm1=Hy.nm1.tolist(), np1=Hy.np1.tolist())
        ck.traces_validated += 1
        ck.case("index-tables", (N, D), nontrivial=D >= 1,
                sample=dict(nbath=N, depth=D, hsize=real["hsize"],
                            hinds=real["hinds"][:8]))
        hinds_arr = numpy.array(real["hinds"], dtype=float).reshape(
            (real["hsize"], N))
        fails = structure_clauses(real, N, D)
        rp = dict(kind="tables", nbath=N, depth=D)
        for f in fails:
            ck.violation(f[0], "tables:" + f[0], dict(nbath=N, depth=D,
                                                      why=f[1]), rp)
        if not fails:
            for k in ("hsize", "hinds", "levels", "levlengths", "nm1", "np1"):
                if real[k] != row[k]:
                    ck.model_drift("table %s differs from the spec for "
                                   "nbath=%d depth=%d (property clauses "
                                   "hold)" % (k, N, D))
        # bath parameters of every site as supplied (distinct per site)
        from quantarhei.core.units import cm2int, kB_int
        want_gamma = numpy.array([1.0 / (40.0 + 17 * i) for i in range(N)])
        want_lam = numpy.array([(20.0 + 7 * i) * cm2int for i in range(N)])
        ck.case("bath-parameters", (N, D), nontrivial=N > 1)
        if (numpy.abs(Hy.gamma - want_gamma).max() > 1e-14 or
                numpy.abs(Hy.lam - want_lam).max() > 1e-14 or
                abs(Hy.kBT - kB_int * 300.0) > 1e-14):
            ck.violation("bath-parameters", "gamma-lam-kBT", dict(
                nbath=N, depth=D, gamma=Hy.gamma.tolist(),
                want_gamma=want_gamma.tolist(), lam=Hy.lam.tolist(),
                want_lam=want_lam.tolist()), rp)
        # Gamma = sum_k n_k gamma_k
        want = hinds_arr.dot(want_gamma)
        ck.case("gamma", (N, D), nontrivial=D >= 1)
        if numpy.abs(Hy.Gamma - want).max() > 1e-15 * (1 + abs(want).max()):
            ck.violation("decay-factors", "Gamma", dict(nbath=N, depth=D,
                         got=Hy.Gamma.tolist(), want=want.tolist()), rp)

    # ------------------------------------------------------- numeric clauses
    nsamp = 12 if ck.thorough else 4
    for s in range(nsamp):
        N = int(rng.randint(2, 4))
        depth = int(rng.randint(1, 4))
        J = float(rng.uniform(20, 120))
        reorg = rng.uniform(10, 60, size=N)
        cort = rng.uniform(30, 100, size=N)
        T = float(rng.uniform(200, 350))
        en = 10000.0 + rng.uniform(-150, 150, size=N)
        Nt = 120
        agg, ta = build(N, J=J, reorg=reorg, cortime=cort, T=T, en=en, Nt=Nt)
        ham = agg.get_Hamiltonian()
        sbi = agg.get_SystemBathInteraction()
        Hy = hierarchy(ham, sbi, depth)
        prop = KTHierarchyPropagator(ta, Hy)
        # random valid initial state in the excited band + ground
        v = rng.randn(ham.dim) + 1j * rng.randn(ham.dim)
        v /= numpy.linalg.norm(v)
        rhoi = qr.ReducedDensityMatrix(dim=ham.dim)
        rhoi.data[:, :] = numpy.outer(v, v.conj())
        rt = prop.propagate(rhoi).data
        trd = float(numpy.abs(numpy.trace(rt, axis1=1, axis2=2) - 1).max())
        hed = float(numpy.abs(rt - rt.conj().transpose(0, 2, 1)).max())
        smp = dict(N=N, depth=depth, J=J, T=T, trace_defect=trd,
                   herm_defect=hed)
        rp = dict(kind="numeric", seed=ck.seed, sample=s)
        ck.case("trace-hermiticity", ("num", s), sample=smp)
        if trd > 1e-10:
            ck.violation("unit-trace", "propagate", smp, rp)
        if hed > 1e-10:
            ck.violation("hermitian", "propagate", smp, rp)

        # the same system with site phases attached to the basis states
        # (H -> D H D+, a complex Hermitian Hamiltonian with the same
        # rotating-wave reference; the baths act through site projectors,
        # which commute with D): rho(t) -> D rho(t) D+
        ph = numpy.exp(1j * rng.uniform(0, 2 * numpy.pi, size=ham.dim))
        ph[0] = 1.0
        Dm = numpy.diag(ph)
        hamc = qr.Hamiltonian(data=Dm.dot(numpy.array(
            ham.data, dtype=complex)).dot(Dm.conj().T))
        hamc.set_rwa([int(x) for x in ham.rwa_indices])
        propc = KTHierarchyPropagator(ta, hierarchy(hamc, sbi, depth))
        rhoc = qr.ReducedDensityMatrix(dim=ham.dim)
        rhoc.data[:, :] = Dm.dot(numpy.outer(v, v.conj())).dot(Dm.conj().T)
        rtc = propc.propagate(rhoc).data
        ge = float(max(numpy.abs(rtc[i] - Dm.dot(rt[i]).dot(Dm.conj().T)
                                 ).max() for i in range(rt.shape[0])))
        ck.case("complex-hamiltonian-gauge", ("num", s),
                sample=dict(smp, gauge_err=ge))
        if ge > 1e-9:
            ck.violation("valid-state-complex-hamiltonian", "gauge",
                         dict(smp, gauge_err=ge), rp)

        # zero system-bath coupling -> closed-system dynamics (RWA frame)
        agg0, ta0 = build(N, J=J, reorg=0.0, cortime=cort, T=T, en=en, Nt=Nt)
        ham0 = agg0.get_Hamiltonian()
        Hy0 = hierarchy(ham0, agg0.get_SystemBathInteraction(), depth)
        prop0 = KTHierarchyPropagator(ta0, Hy0)
        rho0 = qr.ReducedDensityMatrix(dim=ham0.dim)
        rho0.data[:, :] = numpy.outer(v, v.conj())
        r0 = prop0.propagate(rho0).data
        Hrot = ham0.data - numpy.diag(ham0.rwa_energies)
        g = 2 * numpy.abs(Hrot).sum(axis=0).max()
        dt = ta0.step
        bound = Nt * (g * dt) ** 5 / math.factorial(5) * math.exp(g * dt)
        worst = 0.0
        for i, t in enumerate(ta0.data):
            U = scipy.linalg.expm(-1j * Hrot * t)
            worst = max(worst, float(numpy.abs(
                r0[i] - U.dot(numpy.outer(v, v.conj())).dot(U.conj().T)).max()))
        smp0 = dict(N=N, depth=depth, err=worst, bound=bound, g_dt=g * dt)
        ck.case("zero-coupling-limit", ("num", s), sample=smp0)
        if worst > 10 * bound + 1e-10:
            ck.violation("zero-coupling-limit", "propagate", smp0, rp)
        # ... also for a complex Hermitian Hamiltonian (site phases)
        hamc0 = qr.Hamiltonian(data=Dm.dot(numpy.array(
            ham0.data, dtype=complex)).dot(Dm.conj().T))
        hamc0.set_rwa([int(x) for x in ham0.rwa_indices])
        propc0 = KTHierarchyPropagator(ta0, hierarchy(
            hamc0, agg0.get_SystemBathInteraction(), depth))
        rc0 = qr.ReducedDensityMatrix(dim=ham0.dim)
        vc = Dm.dot(v)
        rc0.data[:, :] = numpy.outer(vc, vc.conj())
        r0c = propc0.propagate(rc0).data
        Hrc = numpy.array(hamc0.data) - numpy.diag(hamc0.rwa_energies)
        worst = 0.0
        for i, t in enumerate(ta0.data):
            U = scipy.linalg.expm(-1j * Hrc * t)
            worst = max(worst, float(numpy.abs(
                r0c[i] - U.dot(numpy.outer(vc, vc.conj())).dot(U.conj().T)
            ).max()))
        smpc = dict(smp0, err=worst, hamiltonian="complex")
        ck.case("zero-coupling-limit", ("num", s, "complex"), sample=smpc)
        if worst > 10 * bound + 1e-10:
            ck.violation("zero-coupling-limit", "propagate:complex-H", smpc,
                         rp)

    # convergence with depth for uncoupled sites (exactly solvable); the two
    # sites have DIFFERENT baths and every optical and inter-site coherence is
    # compared with exp(-i w t - g(t))
    nconv = 6 if ck.thorough else 3
    for s in range(nconv):
        N = 2
        reorg = rng.uniform(10, 35, size=N)
        # a bath of zero strength before / after a coupled one (that site
        # then evolves freely: g = 0)
        if s % 3 == 1:
            reorg[0] = 0.0
        elif s % 3 == 2:
            reorg[1] = 0.0
        cort = rng.uniform(30, 55, size=N)
        T = float(rng.uniform(200, 320))
        Nt = 150
        agg, ta = build(N, J=0.0, reorg=reorg, cortime=cort, T=T, Nt=Nt)
        ham = agg.get_Hamiltonian()
        sbi = agg.get_SystemBathInteraction()
        from quantarhei.core.units import cm2int, kB_int
        lam = reorg * cm2int
        gam = 1.0 / cort
        kBT = kB_int * T
        t = ta.data

        def gfun(k):
            return (2 * lam[k] * kBT / gam[k] ** 2 - 1j * lam[k] / gam[k]) * (
                numpy.exp(-gam[k] * t) + gam[k] * t - 1)
        errs = []
        for depth in (1, 2, 3, 4, 5):
            Hy = hierarchy(ham, sbi, depth)
            prop = KTHierarchyPropagator(ta, Hy)
            if s % 2 == 1:
                # the hierarchy and its propagator were used before, for
                # another initial state (every propagation starts from empty
                # auxiliary operators)
                v0 = numpy.array([0.6, 0.64j, 0.48])
                rw = qr.ReducedDensityMatrix(dim=ham.dim)
                rw.data[:, :] = numpy.outer(v0, v0.conj())
                rtw = prop.propagate(rw).data
                trw = float(numpy.abs(numpy.trace(rtw, axis1=1, axis2=2)
                                      - 1.0).max())
                hew = float(numpy.abs(rtw - numpy.conj(
                    numpy.transpose(rtw, (0, 2, 1)))).max())
                if trw > 1e-9 or hew > 1e-9:
                    ck.violation("unit-trace" if trw > 1e-9 else "hermitian",
                                 "propagate:first-use",
                                 dict(depth=depth, trace=trw, herm=hew),
                                 dict(kind="convergence",
                                      reorg=reorg.tolist(),
                                      cortime=cort.tolist(), T=T))
            rhoi = qr.ReducedDensityMatrix(dim=ham.dim)
            rhoi.data[:, :] = 1.0 / 3.0          # (|0>+|1>+|2>)/sqrt3
            rt = prop.propagate(rhoi).data
            w = numpy.diag(ham.data) - ham.rwa_energies
            e = 0.0
            for k in (0, 1):
                ref = numpy.exp(-1j * w[k + 1] * t - gfun(k)) / 3.0
                e = max(e, float(numpy.abs(rt[:, k + 1, 0] - ref).max()))
            # inter-site coherence: independent baths -> exp(-g_1 - g_2^*)
            ref = numpy.exp(-1j * (w[1] - w[2]) * t - gfun(0)
                            - numpy.conj(gfun(1))) / 3.0
            e = max(e, float(numpy.abs(rt[:, 1, 2] - ref).max()))
            errs.append(e)
        smp = dict(reorg=reorg.tolist(), cortime=cort.tolist(), T=T,
                   errors_by_depth=errs, propagator_used_before=bool(s % 2))
        ck.case("depth-convergence", ("conv", s), sample=smp)
        mono = all(errs[i + 1] <= errs[i] * 1.001 + 1e-6
                   for i in range(len(errs) - 1))
        if not mono or errs[-1] > max(0.2 * errs[0], 1e-5):
            ck.violation("depth-convergence", "uncoupled-dimer", smp,
                         dict(kind="convergence", reorg=reorg.tolist(),
                              cortime=cort.tolist(), T=T))

    ck.assume("TLC bound: baths 1..3 x depth 0..3 (quick), 1..4 x 0..5 "
              "(thorough); the tables of every instance are compared with the "
              "real KTHierarchy")
    ck.assume("numeric clauses are sampled in the box reorg 10-60 cm^-1, "
              "cortime 30-100 fs, T 200-350 K; convergence is asserted as "
              "monotone decrease of the error for depth 1..5 and "
              "err(5) <= 0.2 err(1) in the regime 2*lam*kT/gamma^2 <~ 2 where "
              "the high-temperature kernel used by the code is the model")
    return ck.finish()


def structure_clauses(real, N, D):
    """The discrete clauses of C16 evaluated on the tables of the real
    hierarchy."""
    fails = []
    hinds = [tuple(r) for r in real["hinds"]]
    want = [n for n in itertools.product(range(D + 1), repeat=N)
            if sum(n) <= D]
    if sorted(hinds) != sorted(want):
        fails.append(("complete-once", "index set differs: %d rows, %d wanted"
                      % (len(hinds), len(want))))
        return fails
    orders = [sum(n) for n in hinds]
    if orders != sorted(orders):
        fails.append(("level-by-level", "rows not in level order"))
    for k in range(D + 1):
        cnt = orders.count(k)
        if real["levlengths"][k] != cnt or \
                real["levels"][k] != orders.index(k):
            fails.append(("level-by-level", "levels/levlengths wrong at %d"
                          % k))
    idx = {n: i for i, n in enumerate(hinds)}
    for i, n in enumerate(hinds):
        for k in range(N):
            dn = tuple(x - (1 if j == k else 0) for j, x in enumerate(n))
            up = tuple(x + (1 if j == k else 0) for j, x in enumerate(n))
            wm = idx.get(dn, -1)
            wp = idx.get(up, -1)
            if real["nm1"][i][k] != wm:
                fails.append(("links", "nm1[%d,%d]=%d, neighbour is %d"
                              % (i, k, real["nm1"][i][k], wm)))
            if real["np1"][i][k] != wp:
                fails.append(("links", "np1[%d,%d]=%d, neighbour is %d"
                              % (i, k, real["np1"][i][k], wp)))
    return fails[:5]
