# -*- coding: utf-8 -*-
"""C15 — propagation results are functions of their inputs only.

S  specs/CallHistory.tla: which hidden variables (propagator refinement,
   hierarchy ADOs, protection / cut-off of the Hamiltonian) each call on
   shared objects reads and writes
T  TLC over all call sequences in the bound: Determinacy (a call's result
   depends only on its arguments and explicitly set inputs) and
   HamiltonianHandedBack.  Two negative controls must be rejected:
   propagate(rho, Nref=k) leaving the refinement switched on, and HEOM
   propagation without resetting the hierarchy (both repaired in /repo).
H  TLC-simulated call sequences are replayed on ONE shared world (aggregate,
   Hamiltonian, system-bath interaction, tensors, propagators with and
   without Gaussian / Lorentzian pure dephasing, hierarchy, evolution
   superoperators, states, axes): deep fingerprints of every input before
   and after each call, and each call's result compared BITWISE with the
   result of the same call on a freshly built identical world.
"""
import os
import io
import hashlib
import tempfile
import shutil
import contextlib

from harness.common import Check, MachineryFailure
from harness import tlaparse
from harness import tensors as T


def main():
    ck = Check("C15")
    import numpy
    import quantarhei as qr
    from quantarhei.qm import (ReducedDensityMatrixPropagator,
                               StateVectorPropagator, RedfieldRateMatrix)
    from quantarhei.qm.propagators.poppropagator import PopulationPropagator
    from quantarhei.qm.liouvillespace.heom import (KTHierarchy,
                                                   KTHierarchyPropagator)

    ck.tlc("CallHistory", "CallHistory.cfg", workers=8)
    ck.tlc("CallHistory", "CallHistory_asis.cfg", count=False,
           expect_violation="Determinacy")
    ck.tlc("CallHistory", "CallHistory_defect.cfg", count=False,
           expect_violation="Determinacy")
    ck.tlc("CallHistory", "CallHistory_nef.cfg", count=False,
           expect_violation="Determinacy")
    ck.tlc("CallHistory", "CallHistory_onerror.cfg", count=False,
           expect_violation="Determinacy")
    ck.tlc("CallHistory", "CallHistory_free.cfg", count=False,
           expect_violation="Determinacy")
    ck.tlc("CallHistory", "CallHistory_split.cfg", count=False,
           expect_violation="Determinacy")

    def quiet(fn, *a, **kw):
        with contextlib.redirect_stdout(io.StringIO()):
            return fn(*a, **kw)

    class World:
        def __init__(self, seed, variant="dimer"):
            rng = numpy.random.RandomState(seed)
            self.variant = variant
            if variant == "dimer":
                self.ag, self.ta = T.build_aggregate(
                    qr, rng, 2, J=[[0, 70.0], [70.0, 0]],
                    energies=[12000.0, 12200.0], reorg=[30.0, 45.0],
                    cortime=[80.0, 120.0], Nt=120, dt=1.0)
            else:
                # couplings of both signs above the cut-off of the combined
                # theory (26.5 1/cm) and one below it
                self.ag, self.ta = T.build_aggregate(
                    qr, rng, 3, J=[[0, -120.0, -15.0], [-120.0, 0, 60.0],
                                   [-15.0, 60.0, 0]],
                    energies=[12000.0, 12200.0, 12350.0],
                    reorg=[30.0, 45.0, 25.0],
                    cortime=[80.0, 120.0, 60.0], Nt=120, dt=1.0)
            ag = self.ag
            self.ham = ag.get_Hamiltonian()
            self.sbi = ag.get_SystemBathInteraction()
            self.RT, self.HH = ag.get_RelaxationTensor(
                self.ta, relaxation_theory="standard_Redfield")
            # non-equilibrium Foerster theory: the tensor carries a term
            # computed from the submitted initial state; ONE state object is
            # shared by all propagations and re-used in place
            # (built on first use: the tensor is expensive)
            self._nef = False
            self.tprop = qr.TimeAxis(0.0, 25, 2.0)          # dt != 1
            n = self.HH.dim
            self.prop = ReducedDensityMatrixPropagator(self.tprop, self.HH,
                                                       RTensor=self.RT)
            g = numpy.array([[0, 1e-3, 2e-3, 1e-3], [1e-3, 0, 5e-4, 2e-3],
                             [2e-3, 5e-4, 0, 1e-3],
                             [1e-3, 2e-3, 1e-3, 0]])[:n, :n]
            self.pdG = qr.qm.PureDephasing(drates=g * 1e-1, dtype="Gaussian")
            self.pdL = qr.qm.PureDephasing(drates=g.copy(),
                                           dtype="Lorentzian")
            self.propG = ReducedDensityMatrixPropagator(
                self.tprop, self.HH, RTensor=self.RT, PDeph=self.pdG)
            self.propL = ReducedDensityMatrixPropagator(
                self.tprop, self.HH, RTensor=self.RT, PDeph=self.pdL)
            # Hamiltonian only (another code path of the propagator)
            self.propH = ReducedDensityMatrixPropagator(self.tprop, self.HH)
            v = numpy.array([0.0, 0.8, 0.6j, 0.0])[:n]
            self.rho0 = qr.ReducedDensityMatrix(data=numpy.outer(v, v.conj()))
            self.psi0 = qr.StateVector(data=v.copy())
            self.svprop = StateVectorPropagator(self.tprop, self.HH)
            self.KK = RedfieldRateMatrix(self.ham, self.sbi)
            self.popprop = PopulationPropagator(self.tprop, self.KK)
            # (the propagation matrices need the rates as an array)
            self.popmat = PopulationPropagator(self.tprop,
                                               rate_matrix=self.KK.data)
            self.p0 = numpy.array([0.0, 1.0, 0.0, 0.0])[:n]
            self.theom = qr.TimeAxis(0.0, 30, 1.0)
            self.hy = quiet(KTHierarchy, self.ham, self.sbi, 2)
            self.kprop = KTHierarchyPropagator(self.theom, self.hy)
            self.teso = qr.TimeAxis(0.0, 4, 10.0)
            self.eso = qr.qm.EvolutionSuperOperator(self.teso, ham=self.HH,
                                                    relt=self.RT)
            self.eso.set_dense_dt(4)
            self.esoG = qr.qm.EvolutionSuperOperator(
                self.teso, ham=self.HH, relt=self.RT, pdeph=self.pdG)
            self.esoG.set_dense_dt(4)

        def nef(self):
            if not self._nef:
                self.RTn, self.HHn = self.ag.get_RelaxationTensor(
                    self.ta, relaxation_theory="neF", time_dependent=True)
                self.propN = ReducedDensityMatrixPropagator(
                    self.ta, self.HHn, self.RTn)
                self.rhoN = qr.ReducedDensityMatrix(dim=self.HHn.dim)
                self._nef = True

        def fingerprint(self):
            def h(a):
                return hashlib.sha1(numpy.ascontiguousarray(
                    numpy.asarray(a)).tobytes()).hexdigest()[:12]
            fp = {}
            for nm, hh in (("ham", self.ham), ("HH", self.HH)):
                fp[nm + ".data"] = h(hh._data)
                fp[nm + ".protected"] = bool(hh.is_basis_protected)
                fp[nm + ".basis"] = hh.get_current_basis()
                fp[nm + ".rwa"] = h(hh.rwa_indices)
            fp["sbi.KK"] = h(self.sbi.KK)
            fp["sbi.CC"] = h(numpy.array([
                self.sbi.CC.get_coft(i, i) for i in range(self.sbi.N)]))
            fp["RT.data"] = h(self.RT._data)
            fp["RT.basis"] = self.RT.get_current_basis()
            if self._nef:
                fp["RTn.data"] = h(self.RTn._data)
                fp["HHn.data"] = h(self.HHn._data)
            fp["rho0"] = h(self.rho0._data)
            fp["psi0"] = h(self.psi0.data)
            fp["p0"] = h(self.p0)
            fp["KK"] = h(self.KK.data)
            for nm, tx in (("ta", self.ta), ("tprop", self.tprop),
                           ("theom", self.theom), ("teso", self.teso)):
                fp[nm] = h(tx.data)
            fp["pdG"] = h(self.pdG.data)
            fp["pdL"] = h(self.pdL.data)
            for nm in ("hinds", "Gamma", "lam", "gamma", "Vs", "nm1", "np1"):
                fp["hy." + nm] = h(getattr(self.hy, nm))
            m = qr.Manager()
            fp["units"] = m.get_current_units("energy")
            fp["basis_stack"] = tuple(m.basis_stack)
            return fp

        def call(self, name, arg):
            if name == "set_refinement":
                for p in (self.prop, self.propG, self.propL, self.propH):
                    p.setDtRefinement(arg)
                return None
            if name == "rdm_propagate":
                out = []
                for p in (self.prop, self.propG, self.propL, self.propH):
                    r = quiet(p.propagate, self.rho0, Nref=arg)
                    out.append(numpy.array(r.data))
                return numpy.array(out)
            if name == "build_tensor":
                if arg:
                    RT, H2 = self.ag.get_RelaxationTensor(
                        self.ta, relaxation_theory="combined_RedfieldFoerster",
                        coupling_cutoff=0.005)
                    return numpy.array(RT.data)
                out = []
                for th, kw in (("standard_Redfield", {}),
                               ("standard_Redfield",
                                dict(time_dependent=True)),
                               ("standard_Foerster", {}),
                               # (the combined theory WITHOUT a cut-off,
                               # last: nothing afterwards touches the flags
                               # of the shared Hamiltonian)
                               ("combined_RedfieldFoerster", {})):
                    RT, H2 = self.ag.get_RelaxationTensor(
                        self.ta, relaxation_theory=th, **kw)
                    d = numpy.array(RT.data)
                    out.append(d if d.ndim == 4 else d[-1])
                return numpy.array(out)
            if name == "rdm_propagate_raises":
                # a propagation with a refinement that raises after the
                # refinement was applied; the caller catches the exception
                for p in (self.prop, self.propG, self.propL, self.propH):
                    try:
                        quiet(p.propagate, self.rho0, Nref=arg,
                              method="no-such-method")
                    except Exception:
                        pass
                    # (a library that accepts the method name has simply
                    # propagated; what matters is the next call)
                return None
            if name in ("nef_propagate", "nef_eso_calculate"):
                self.nef()
            if name == "nef_propagate":
                self.rhoN.data[:, :] = 0.0
                self.rhoN.data[arg, arg] = 1.0
                r = quiet(self.propN.propagate, self.rhoN)
                return numpy.array(r.data)
            if name == "nef_eso_calculate":
                e = qr.qm.EvolutionSuperOperator(self.ta, self.HHn, self.RTn)
                quiet(e.calculate)
                return numpy.array(e.data)
            if name == "heom_propagate_free":
                r = quiet(self.kprop.propagate, self.rho0,
                          free_hierarchy=True)
                return numpy.array([numpy.array(r.data),
                                    numpy.array(self.hy.ado[:r.data.shape[0]]
                                                if self.hy.ado.shape[0] >=
                                                r.data.shape[0] else
                                                r.data)][:1])
            if name == "heom_propagate":
                r = quiet(self.kprop.propagate, self.rho0)
                return numpy.array(r.data)
            if name == "eso_calculate":
                quiet(self.eso.calculate)
                quiet(self.esoG.calculate)
                return numpy.array([self.eso.data, self.esoG.data])
            if name == "pop_propagate":
                return numpy.array(self.popprop.propagate(self.p0))
            if name == "pop_matrix":
                # arg 0: plain matrix; arg c > 0: with c perturbative orders
                ts = qr.TimeAxis(self.tprop.start, self.tprop.length // 2,
                                 2 * self.tprop.step)
                if not arg:
                    return numpy.array(
                        self.popmat.get_PropagationMatrix(ts))
                res = self.popmat.get_PropagationMatrix(
                    ts, corrections=arg, exact=True)
                if not isinstance(res, tuple):
                    return numpy.array(res)
                U, orders = res
                if isinstance(orders, numpy.ndarray):
                    orders = (orders,)
                return numpy.array([U] + [numpy.array(o) for o in orders])
            if name == "sv_propagate":
                r = self.svprop.propagate(self.psi0)
                return numpy.array(r.data)
            raise MachineryFailure("unknown call " + name)

    # fresh results, cached per (call, arg, user refinement)
    fresh_cache = {}

    def fresh(name, arg, user_nref, variant):
        key = (name, arg, user_nref if name == "rdm_propagate" else 0,
               variant)
        if key not in fresh_cache:
            w = World(ck.seed, variant)
            if name == "rdm_propagate" and user_nref != 1:
                w.call("set_refinement", user_nref)
            fresh_cache[key] = w.call(name, arg)
        return fresh_cache[key]

    # ------------------------------------------------ behaviours -> real code
    tmp = tempfile.mkdtemp(prefix="c15_")
    try:
        nsim = 150 if ck.thorough else 30
        pref = os.path.join(tmp, "tr")
        ck.tlc("CallHistory", "CallHistory_sim.cfg",
               simulate="file=%s,num=%d" % (pref, nsim), depth=7, workers=1,
               seed=ck.seed + 4, count=False)
        behs = tlaparse.load_behaviours(pref)
    finally:
        shutil.rmtree(tmp, ignore_errors=True)
    # plus the canonical short sequences
    canon = [
        [("rdm_propagate", 1), ("rdm_propagate", 4), ("rdm_propagate", 1)],
        [("heom_propagate", None), ("heom_propagate", None)],
        [("heom_propagate_free", None), ("heom_propagate", None),
         ("heom_propagate_free", None), ("heom_propagate", None)],
        [("build_tensor", True), ("build_tensor", False),
         ("rdm_propagate", 1)],
        [("eso_calculate", None), ("rdm_propagate", 1),
         ("eso_calculate", None)],
        [("rdm_propagate", 1), ("eso_calculate", None),
         ("rdm_propagate", 1), ("sv_propagate", None),
         ("pop_propagate", None), ("rdm_propagate", 1)],
        [("set_refinement", 2), ("rdm_propagate", 1), ("build_tensor", True),
         ("rdm_propagate", 1)],
        [("rdm_propagate", 1), ("rdm_propagate_raises", 4),
         ("rdm_propagate", 1), ("set_refinement", 2),
         ("rdm_propagate_raises", 4), ("rdm_propagate", 1)],
        [("nef_propagate", 1), ("nef_propagate", 2), ("nef_propagate", 1),
         ("nef_eso_calculate", None)],
        [("nef_propagate", 2), ("nef_eso_calculate", None),
         ("rdm_propagate", 1), ("nef_propagate", 2)],
        [("pop_propagate", None), ("pop_matrix", 2), ("pop_propagate", None),
         ("pop_matrix", 0), ("pop_matrix", 2)],
    ]
    seqs = [(q, v) for v in ("dimer", "trimer") for q in canon]
    for beh in behs:
        seq = []
        for act, st in beh[1:]:
            a = st["_args"]
            if act == "SetRefinement":
                seq.append(("set_refinement", a[0]))
            elif act == "RDMPropagate":
                seq.append(("rdm_propagate", a[0]))
            elif act == "BuildTensor":
                seq.append(("build_tensor", bool(a[0])))
            elif act == "HeomPropagate":
                seq.append(("heom_propagate", None))
            elif act == "HeomPropagateFree":
                seq.append(("heom_propagate_free", None))
            elif act == "NefPropagate":
                seq.append(("nef_propagate", a[0]))
            elif act == "RDMPropagateRaises":
                seq.append(("rdm_propagate_raises", a[0]))
            elif act == "PopPropagate":
                seq.append(("pop_propagate", None))
            elif act == "PopMatrix":
                seq.append(("pop_matrix", a[0]))
            elif act == "Stateless":
                seq.append((a[0], None))
        if seq:
            seqs.append((seq, "dimer" if len(seqs) % 2 else "trimer"))

    for si, (seq, variant) in enumerate(seqs):
        if variant == "trimer" and not ck.thorough:
            # (the neF tensor of the trimer takes 1.3 s to build: thorough)
            seq = [c for c in seq if not c[0].startswith("nef")]
            if not seq:
                continue
        w = World(ck.seed, variant)
        user_nref = 1
        polluted = False      # propagate(Nref>1) happened, no explicit reset
        hist = []
        for (name, arg) in seq:
            if name.startswith("nef"):
                w.nef()
            fp0 = w.fingerprint()
            rp = dict(kind="history", world=variant,
                      history=hist + [[name, arg]])
            res = None
            with ck.guarded("call", name, rp, rp):
                res = w.call(name, arg)
            hist.append([name, arg])
            fp1 = w.fingerprint()
            ck.case("inputs-unchanged", (si, len(hist)),
                    nontrivial=name != "set_refinement")
            if fp1 != fp0:
                diff = sorted(k for k in fp0 if fp0[k] != fp1[k])
                ck.violation("inputs-unchanged", "%s:%s" % (
                    name, ",".join(diff)), dict(rp, changed=diff), rp)
            if name == "set_refinement":
                user_nref = arg
                polluted = False
                continue
            if res is None:
                continue
            want = fresh(name, arg, user_nref, variant)
            same = (res.shape == want.shape and numpy.array_equal(res, want))
            ck.case("same-result-as-fresh", (si, len(hist)),
                    sample=dict(history=list(hist), same=bool(same)))
            if not same:
                err = float(numpy.abs(res - want).max()) if \
                    res.shape == want.shape else float("inf")
                if name == "rdm_propagate" and arg == 1 and polluted:
                    key = "rdm_propagate-after-propagate(Nref>1)"
                else:
                    key = "%s:after:%s" % (name, "-".join(
                        h[0] for h in hist[:-1][-2:]) or "nothing")
                ck.violation("same-result-as-fresh", key,
                             dict(rp, max_diff=err), rp)
            if name == "rdm_propagate" and arg > 1:
                polluted = True
        ck.traces_validated += 1

    ck.assume("results are compared bitwise with those of a freshly built "
              "identical world (same arithmetic => same bits)")
    ck.assume("fingerprints cover observable data of the inputs (arrays, "
              "protection flag, basis tag, RWA indices, units and basis "
              "stack of the Manager); lazily filled caches inside the "
              "objects are not fingerprinted")
    ck.assume("calculate_next of a jit evolution superoperator is stateful "
              "by contract and is exercised in C08, not here")
    return ck.finish()
