# -*- coding: utf-8 -*-
"""C04 — basis-change contexts are transparent and self-restoring.

S  specs/BasisManager.tla
T  TLC exhaustive over all histories (create / read / write / protect /
   unprotect / enter / exit / raise / catch) in the bound; negative control
   (exit forgets to pop the transformations); -simulate behaviours
H  spec->code: every simulated behaviour is executed on real managed objects
   (Operator, SelfAdjointOperator, Hamiltonian, ReducedDensityMatrix,
   SuperOperator, DensityMatrixEvolution; dimension 2-4, degenerate spectra
   included).  After every action the projection of the real Manager and of
   the objects (stack, transformations, registered objects, flag, tags,
   protection, and the numerically recovered representation path) is compared
   with the spec state, and the property's numeric clauses are evaluated:
   context operator diagonal with ascending eigenvalues, object presented in
   the context basis after access, trace / spectrum / tr(A rho) / action of a
   superoperator equal to the values outside, everything restored at depth 0.
"""
import os
import tempfile
import shutil

from harness.common import Check, MachineryFailure
from harness import tlaparse

TOL = 1e-9


class Boom(Exception):
    pass


def main():
    ck = Check("C04")
    import numpy
    import quantarhei as qr
    from quantarhei.core.managers import Manager
    from quantarhei.qm.liouvillespace.superoperator import SuperOperator

    man = Manager()
    rng = numpy.random.RandomState(ck.seed)

    # ------------------------------------------------------------------ TLC
    cfg = "BasisManager_large.cfg" if ck.thorough else "BasisManager.cfg"
    res = ck.tlc("BasisManager", cfg, coverage=True, workers=16)
    for act in ("Create", "Access", "Protect", "Unprotect", "Enter", "Exit",
                "Raise", "Catch"):
        if res["coverage"].get(act, (0, 0))[1] == 0:
            raise MachineryFailure("vacuous: action %s never taken" % act)
    ck.tlc("BasisManager", "BasisManager_defect.cfg", count=False,
           expect_violation="Bookkeeping")

    # ---------------------------------------------------- behaviours -> code
    tmp = tempfile.mkdtemp(prefix="c04_")
    try:
        nsim = 4000 if ck.thorough else 400
        pref = os.path.join(tmp, "tr")
        ck.tlc("BasisManager", "BasisManager_sim.cfg",
               simulate="file=%s,num=%d" % (pref, nsim), depth=16, workers=1,
               seed=ck.seed + 11, count=False)
        behs = tlaparse.load_behaviours(pref)
    finally:
        shutil.rmtree(tmp, ignore_errors=True)
    if len(behs) < nsim // 2:
        raise MachineryFailure("too few behaviours")

    def herm(N, degenerate):
        # real symmetric or genuinely complex Hermitian
        A = rng.randn(N, N)
        if rng.rand() < 0.5:
            A = A + 1j * rng.randn(N, N)
        Q, _ = numpy.linalg.qr(A)
        if degenerate:
            ev = numpy.sort(rng.randint(0, 3, size=N).astype(float))
        else:
            ev = numpy.sort(rng.randn(N))
        return Q.dot(numpy.diag(ev)).dot(Q.conj().T)

    def tr_op(A, S):
        return numpy.linalg.inv(S).dot(A).dot(S)

    def tr_sop(L, S):
        S1 = numpy.linalg.inv(S)
        return numpy.einsum('ai,jb,ijkl,kc,dl->abcd', S1, S, L, S, S1)

    kinds_ctx = ["ham", "sa"]
    kinds_any = ["op", "rdm", "sop", "tdsop", "dme", "sa", "ham"]

    for bi, beh in enumerate(behs):
        N = int(rng.randint(2, 5))
        degenerate = rng.rand() < 0.35
        objs = {}     # name -> dict(obj, kind, orig, opath)
        Smat = {}     # token -> S
        cms = []      # open context managers
        dups = []     # duplicates made inside contexts
        hist = []
        kindof = {"h": "ham", "a": rng.choice(kinds_ctx),
                  "b": rng.choice(kinds_any)}
        failed = False

        def ref_data(o, path):
            """original data of o carried along `path` (list of tokens)"""
            e = objs[o]
            d = e["orig"]
            # remove the creation path, then apply the requested one
            for t in reversed(e["opath"]):
                S = Smat[t]
                d = _apply(e["kind"], d, numpy.linalg.inv(S))
            for t in path:
                d = _apply(e["kind"], d, Smat[t])
            return d

        def _apply(kind, d, S):
            if kind == "sop":
                return tr_sop(d, S)
            if kind == "tdsop":
                return numpy.array([tr_sop(x, S) for x in d])
            if kind == "dme":
                return numpy.array([tr_op(x, S) for x in d])
            return tr_op(d, S)

        def violation(clause, why, extra=None):
            d = dict(history=hist, N=N, degenerate=bool(degenerate),
                     kinds=kindof, why=why)
            if extra:
                d.update(extra)
            ck.violation(clause, "replay:" + clause, d,
                         dict(history=hist, N=N, kinds=kindof,
                              seed=ck.seed, behaviour=bi))

        try:
            prev = beh[0][1]
            for act, st in beh[1:]:
                args = st["_args"]
                depth_before = prev["depth"]
                if act == "Create":
                    o = args[0]
                    kind = kindof[o]
                    if kind in ("ham", "sa"):
                        # generic Hermitian; already diagonal with an
                        # unsorted (possibly degenerate) diagonal; or a
                        # non-monotonic function of an earlier operator
                        # (commutes with it: diagonal and unsorted inside the
                        # earlier operator's context)
                        others = [x for x in objs if x != o and
                                  objs[x]["kind"] in ("ham", "sa")]
                        x = rng.rand()
                        if x < 0.25:
                            if degenerate:
                                ev = rng.randint(0, 3, size=N).astype(float)
                            else:
                                ev = rng.randn(N)
                            d = numpy.diag(ev).astype(complex)
                            shape = "diagonal"
                        elif x < 0.45 and others:
                            B = ref_data(others[0], prev["trans"])
                            d = B.dot(B) - 0.7 * B
                            d = (d + d.conj().T) / 2
                            shape = "commuting"
                        else:
                            d = herm(N, degenerate)
                            shape = "generic"
                        hist.append(["shape", o, shape])
                        if kind == "ham":
                            obj = qr.Hamiltonian(data=d.copy())
                        else:
                            obj = qr.qm.SelfAdjointOperator(data=d.copy())
                    elif kind == "op":
                        d = rng.randn(N, N) + 1j * rng.randn(N, N)
                        obj = qr.qm.Operator(data=d.copy())
                    elif kind == "rdm":
                        v = rng.randn(N, N) + 1j * rng.randn(N, N)
                        d = v.dot(v.conj().T)
                        d /= numpy.trace(d)
                        obj = qr.ReducedDensityMatrix(data=d.copy())
                    elif kind == "sop":
                        d = (rng.randn(N, N, N, N) +
                             1j * rng.randn(N, N, N, N))
                        obj = SuperOperator(data=d.copy())
                    elif kind == "tdsop":
                        # a superoperator with a time index (the data layout
                        # of evolution superoperators)
                        d = (rng.randn(3, N, N, N, N) +
                             1j * rng.randn(3, N, N, N, N))
                        obj = SuperOperator(dim=N)
                        obj.data = d.copy()
                    elif kind == "dme":
                        ta = qr.TimeAxis(0.0, 3, 1.0)
                        v = rng.randn(N, N) + 1j * rng.randn(N, N)
                        d0 = v.dot(v.conj().T)
                        r0 = qr.ReducedDensityMatrix(data=d0.copy())
                        obj = qr.DensityMatrixEvolution(ta, r0)
                        obj.data[1, :, :] = 2.0 * d0
                        obj.data[2, :, :] = 3.0 * d0
                        d = numpy.array([d0, 2 * d0, 3 * d0])
                    objs[o] = dict(obj=obj, kind=kind, orig=numpy.array(d),
                                   opath=list(prev["trans"]))
                    hist.append(["create", o, kind])
                elif act == "Access":
                    o = args[0]
                    e = objs[o]
                    # (operators through the basis-managed setter,
                    # Hamiltonians through the units-and-basis-managed one)
                    write = rng.rand() < 0.25 and e["kind"] in (
                        "op", "ham", "sa", "rdm")
                    if write:
                        if e["kind"] == "op":
                            d = rng.randn(N, N) + 1j * rng.randn(N, N)
                        elif e["kind"] == "rdm":
                            v = rng.randn(N, N) + 1j * rng.randn(N, N)
                            d = v.dot(v.conj().T)
                            d /= numpy.trace(d)
                        else:
                            d = herm(N, False)
                        e["obj"].data = d.copy()
                        # (an operator overwritten inside its own context is
                        # no longer the diagonal one of that context)
                        cms[:] = [(c0, o0, f0 and o0 != o)
                                  for (c0, o0, f0) in cms]
                        e["orig"] = d
                        e["opath"] = list(st["rep"][o])
                        hist.append(["write", o])
                    else:
                        got = numpy.array(e["obj"].data)
                        hist.append(["read", o])
                        if (not st["prot"][o]) and st["consistent"][o]:
                            # Transparent: presented in the context basis
                            want = ref_data(o, st["trans"])
                            err = _relerr(got, want)
                            ck.case("transparent", (bi, len(hist)),
                                    nontrivial=st["depth"] > 0)
                            if err > TOL:
                                violation("transparent",
                                          "object %s read at depth %d is not "
                                          "in the context basis (rel err "
                                          "%.2e)" % (o, st["depth"], err))
                                failed = True
                                break
                            # a duplicate made here (copy / deepcopy go
                            # through the state of the object as it looks
                            # outside all contexts) is the same physical
                            # object: presented alike now, and in the
                            # original representation once all contexts are
                            # left
                            if st["depth"] >= 1 and e["kind"] in (
                                    "op", "rdm", "sa", "ham"):
                                import copy as _cp
                                dup = _cp.deepcopy(e["obj"]) if len(
                                    dups) % 2 == 0 else _cp.copy(e["obj"])
                                derr = _relerr(numpy.array(dup.data), got)
                                ck.case("duplicate-transparent",
                                        (bi, len(hist)),
                                        nontrivial=st["depth"] >= 2)
                                if derr > TOL:
                                    violation(
                                        "transparent",
                                        "a copy of %s made at depth %d is "
                                        "presented differently from its "
                                        "source (rel err %.2e)" % (
                                            o, st["depth"], derr))
                                    failed = True
                                    break
                                # (the source may be overwritten later)
                                dups.append((dup, o, st["depth"],
                                             numpy.array(ref_data(o, []))))
                            if cms and cms[-1][1] == o and cms[-1][2]:
                                off = got - numpy.diag(numpy.diag(got))
                                dg = numpy.real(numpy.diag(got))
                                sc = max(1.0, numpy.abs(got).max())
                                ck.case("context-operator-diagonal",
                                        (bi, len(hist)))
                                if (numpy.abs(off).max() > TOL * sc or
                                        numpy.any(numpy.diff(dg) < -TOL * sc)):
                                    violation(
                                        "context-operator-diagonal",
                                        "operator %s not diagonal/ascending "
                                        "inside its own context" % o,
                                        dict(offdiag=float(
                                            numpy.abs(off).max()),
                                            diag=dg.tolist()))
                                    failed = True
                                    break
                            bad = numeric_clauses(numpy, qr, objs, o, got,
                                                  st, Smat, ref_data, cms)
                            if bad:
                                violation(bad[0], bad[1])
                                failed = True
                                break
                elif act == "Protect":
                    objs[args[0]]["obj"].protect_basis()
                    hist.append(["protect", args[0]])
                elif act == "Unprotect":
                    objs[args[0]]["obj"].unprotect_basis()
                    hist.append(["unprotect", args[0]])
                elif act == "Enter":
                    op = args[0]
                    cm = qr.eigenbasis_of(objs[op]["obj"])
                    cm.__enter__()
                    # the new basis diagonalises op iff op was under management
                    # when the context was entered
                    cms.append((cm, op, (not prev["prot"][op]) and
                                bool(prev["consistent"][op])))
                    tok = st["trans"][-1]
                    Smat[tok] = numpy.array(man.basis_transformations[-1])
                    hist.append(["enter", op])
                elif act == "Exit":
                    cm, op, _dg = cms.pop()
                    if prev["exc"]:
                        cm.__exit__(Boom, Boom(), None)
                    else:
                        cm.__exit__(None, None, None)
                    hist.append(["exit", bool(prev["exc"])])
                elif act == "Raise":
                    hist.append(["raise"])
                elif act == "Catch":
                    hist.append(["catch"])
                else:
                    raise MachineryFailure("unknown action " + act)

                # ---- projection of the real state vs the spec state
                proj = projection(man, objs)
                want = dict(stack=list(range(st["depth"] + 1)),
                            ntrans=st["depth"] + 1,
                            flag=bool(st["flag"]),
                            registered={k + 1: sorted(st["registered"][k])
                                        for k in range(st["depth"])},
                            tags={o: st["tag"][o] for o in objs},
                            prot={o: bool(st["prot"][o]) for o in objs})
                if proj != want:
                    diff = {k: (proj[k], want[k]) for k in want
                            if proj[k] != want[k]}
                    # bookkeeping is part of the property when a context was
                    # left; elsewhere a difference is a disagreement with the
                    # model
                    if act == "Exit" and any(k in diff for k in
                                             ("stack", "ntrans", "flag")):
                        violation("bookkeeping-restored",
                                  "after exit: %r" % diff)
                    elif "registered" in diff or "tags" in diff:
                        violation("bookkeeping", "real manager state differs "
                                  "from the specified one: %r" % diff)
                    else:
                        ck.model_drift("projection differs: %r after %r" %
                                       (diff, hist))
                    failed = True
                    break
                # ---- representation of every object
                for o, e in objs.items():
                    if not st["consistent"][o]:
                        # retagged while protected ("frozen" by design of
                        # __exit__): no representation is asserted
                        continue
                    got = numpy.array(e["obj"]._data)
                    want_d = ref_data(o, st["rep"][o])
                    err = _relerr(got, want_d)
                    if err > TOL:
                        restored_clause = (st["depth"] == 0 and
                                           st["consistent"][o] and
                                           not st["prot"][o])
                        if restored_clause:
                            violation("restored", "object %s is not back in "
                                      "its original representation (rel err "
                                      "%.2e)" % (o, err))
                        elif st["consistent"][o]:
                            violation("representation", "object %s: stored "
                                      "data differ from the representation "
                                      "the basis bookkeeping names (rel err "
                                      "%.2e, path %r)" % (o, err,
                                                          st["rep"][o]))
                        else:
                            ck.model_drift("frozen object %s differs" % o)
                        failed = True
                        break
                if failed:
                    break
                prev = st
        except MachineryFailure:
            raise
        except Exception as e:
            import traceback
            violation("exception", "library raised %r" % (e,),
                      dict(tb=traceback.format_exc()[-600:]))
        finally:
            # leave the global Manager clean for the next behaviour
            while cms:
                cm = cms.pop()[0]
                try:
                    cm.__exit__(None, None, None)
                except Exception:
                    pass
            # every duplicate is back in the representation of its source
            # outside all contexts
            if not failed:
                for dup, o, dd, dref in dups:
                    try:
                        derr = _relerr(numpy.array(dup.data), dref)
                    except Exception as ex:
                        derr = float("inf")
                    if derr > TOL:
                        violation("restored", "a copy of %s made at depth "
                                  "%d is not in the original representation "
                                  "after all contexts were left (rel err "
                                  "%.2e)" % (o, dd, derr))
                        break
            _reset_manager(man)
        ck.case("behaviour-replay", (bi, tuple(map(tuple, hist))),
                nontrivial=any(h[0] == "enter" for h in hist),
                sample=dict(N=N, kinds=kindof, history=hist))
        ck.traces_validated += 1

    # ------------------- recorded traces of library routines (code -> spec)
    library_traces(ck, qr, numpy)
    context_methods(ck, qr, numpy)
    remainder_coupling(ck, qr, numpy)
    slices_created_inside(ck, qr, numpy)
    slice_behaviours(ck, qr, numpy)

    ck.assume("TLC bound: 3 objects (2 usable as context operators), nesting "
              "<= 2(3), histories <= 9(12) steps; replayed behaviours up to "
              "15 steps, nesting <= 3")
    ck.assume("an object that is protected when a context it is registered "
              "in is left keeps the inner representation by design of "
              "__exit__ ('frozen'); Restored/Transparent are asserted for "
              "objects that were not retagged while protected")
    ck.assume("numeric tolerance 1e-9 relative (eigh + inv of well "
              "conditioned orthogonal matrices, dimension <= 4)")
    return ck.finish()


def _relerr(a, b):
    import numpy
    a = numpy.asarray(a)
    b = numpy.asarray(b)
    if a.shape != b.shape:
        return float("inf")
    sc = max(1.0, float(numpy.abs(b).max()))
    return float(numpy.abs(a - b).max()) / sc


def _reset_manager(man):
    man.basis_stack = [0]
    man.basis_transformations = [1]
    man.basis_registered = {}
    man._in_eigenbasis_of_context = False


def projection(man, objs):
    ids = {id(e["obj"]): o for o, e in objs.items()}
    reg = {}
    for k, lst in man.basis_registered.items():
        reg[k] = sorted({ids[id(x)] for x in lst if id(x) in ids})
    return dict(stack=list(man.basis_stack),
                ntrans=len(man.basis_transformations),
                flag=bool(man._in_eigenbasis_of_context),
                registered=reg,
                tags={o: e["obj"].get_current_basis() for o, e in objs.items()},
                prot={o: bool(e["obj"].is_basis_protected)
                      for o, e in objs.items()})


def numeric_clauses(numpy, qr, objs, o, got, st, Smat, ref_data, cms):
    """Basis-independent results of the object just read equal their values
    outside (computed from the original data)."""
    e = objs[o]
    kind = e["kind"]
    base = ref_data(o, [])
    if kind in ("op", "sa", "ham", "rdm"):
        if abs(numpy.trace(got) - numpy.trace(base)) > TOL * max(
                1.0, abs(numpy.trace(base))):
            return ("trace-invariant", "trace of %s changed" % o)
        ev1 = numpy.sort_complex(numpy.linalg.eigvals(got))
        ev0 = numpy.sort_complex(numpy.linalg.eigvals(base))
        if kind != "op" and numpy.abs(ev1 - ev0).max() > 1e-7 * max(
                1.0, numpy.abs(ev0).max()):
            return ("spectrum-invariant", "spectrum of %s changed" % o)
        # tr(A rho) with every other matrix-like object readable here
        for p, f in objs.items():
            if p == o or f["kind"] not in ("op", "sa", "ham", "rdm"):
                continue
            if st["prot"][p] or not st["consistent"][p]:
                continue
            if st["tag"][p] != st["depth"]:
                continue      # reading it would be an access the behaviour
                              # does not contain
            other = numpy.array(f["obj"]._data)
            v_in = numpy.trace(got.dot(other))
            v_out = numpy.trace(base.dot(ref_data(p, [])))
            if abs(v_in - v_out) > 1e-8 * max(1.0, abs(v_out)):
                return ("expectation-invariant",
                        "tr(%s %s) inside %r != outside %r" % (o, p, v_in,
                                                               v_out))
    if kind == "sop":
        for p, f in objs.items():
            if f["kind"] not in ("rdm", "op", "sa", "ham"):
                continue
            if st["prot"][p] or not st["consistent"][p]:
                continue
            if st["tag"][p] != st["depth"]:
                continue
            res = e["obj"].apply(f["obj"])
            # bring the result back to the site basis by hand
            d = numpy.array(res._data)
            for t in reversed(st["trans"]):
                d = numpy.linalg.inv(numpy.linalg.inv(Smat[t])).dot(d).dot(
                    numpy.linalg.inv(Smat[t]))
            want = numpy.einsum('ijkl,kl->ij', ref_data(o, []),
                                ref_data(p, []))
            if numpy.abs(d - want).max() > 1e-8 * max(1.0,
                                                      numpy.abs(want).max()):
                return ("superoperator-action-invariant",
                        "%s.apply(%s) inside differs from outside" % (o, p))
    return None


def context_methods(ck, qr, numpy):
    """Methods of managed objects that work on the stored array must first
    bring the object into the basis of the current context: a relaxation
    tensor whose FIRST use inside a context is secularize() gives the same
    result (there and after the context) as a twin that was read first."""
    from quantarhei.qm import LindbladForm
    rng = numpy.random.RandomState(ck.seed + 4)
    for s in range(6 if ck.thorough else 3):
        n = 3 + s % 2
        A = rng.randn(n, n)
        ham = qr.Hamiltonian(data=(A + A.T) / 2)
        Bc = rng.randn(n, n) + (1j * rng.randn(n, n) if s % 2 else 0.0)
        ctx = qr.qm.SelfAdjointOperator(data=(Bc + Bc.conj().T) / 2)

        def tensor():
            ops = [qr.qm.Operator(data=K.copy()) for K in Ks]
            sbi = qr.qm.SystemBathInteraction(sys_operators=ops,
                                              rates=(0.01, 0.02))
            return LindbladForm(ham, sbi, as_operators=False)
        Ks = [rng.randn(n, n), rng.randn(n, n)]
        rp = dict(kind="context-method", method="secularize", n=n,
                  complex_context=bool(s % 2))
        with ck.guarded("transparent", "secularize-first-in-context", rp, rp):
            ref, tst = tensor(), tensor()
            with qr.eigenbasis_of(ctx):
                numpy.array(ref.data)            # read first
                ref.secularize()
                r_in = numpy.array(ref.data)
            r_out = numpy.array(ref.data)
            with qr.eigenbasis_of(ctx):
                tst.secularize()                 # first use
                t_in = numpy.array(tst.data)
            t_out = numpy.array(tst.data)
            sc = max(1.0, float(numpy.abs(r_in).max()))
            e = max(float(numpy.abs(t_in - r_in).max()),
                    float(numpy.abs(t_out - r_out).max())) / sc
            ck.case("context-method", ("secularize", s),
                    sample=dict(rp, err=e))
            if e > 1e-10:
                ck.violation("transparent", "secularize-first-in-context",
                             dict(rp, err=e), rp)


def remainder_coupling(ck, qr, numpy):
    """A Hamiltonian whose weak couplings were set aside
    (remove_cutoff_coupling) carries them as part of its managed state: put
    back inside a basis context (recover_cutoff_coupling is a write to the
    object), the Hamiltonian is the complete one in the context basis, and
    after the context is left - normally or through an exception - it is
    the complete one in the original representation."""
    rng = numpy.random.RandomState(ck.seed + 6)

    class Boom(Exception):
        pass
    for s in range(8 if ck.thorough else 4):
        n = 4 + s % 2
        A = rng.randn(n, n) * 0.3
        hfull = (A + A.T) / 2
        hfull[numpy.arange(n), numpy.arange(n)] = numpy.sort(rng.rand(n))
        cutoff = float(numpy.median(numpy.abs(hfull[numpy.triu_indices(
            n, 1)])))
        Bm = rng.randn(n, n)
        for where in ("own", "other", "nested"):
            for leave in ("normal", "exception"):
                rp = dict(kind="remainder-coupling", seed=ck.seed, system=s,
                          context=where, leave=leave)
                with ck.guarded("transparent", "remainder-coupling", rp, rp):
                    with qr.energy_units("int"):
                        H = qr.Hamiltonian(data=hfull.copy())
                        H.remove_cutoff_coupling(cutoff)
                        hcut = numpy.array(H.data)
                    Aop = qr.qm.SelfAdjointOperator(data=(Bm + Bm.T) / 2)
                    ops = dict(own=[H], other=[Aop], nested=[Aop, H])[where]
                    import contextlib
                    inside = None
                    try:
                        with contextlib.ExitStack() as stack:
                            for op in ops:
                                stack.enter_context(qr.eigenbasis_of(op))
                            _ = numpy.array(H.data)
                            H.recover_cutoff_coupling()
                            inside = numpy.array(H.data)
                            if leave == "exception":
                                raise Boom()
                    except Boom:
                        pass
                    after = numpy.array(H.data)
                    sc = float(numpy.abs(hfull).max())
                    e_sp = float(numpy.abs(
                        numpy.linalg.eigvalsh((inside + inside.conj().T) / 2)
                        - numpy.linalg.eigvalsh(hfull)).max()) / sc
                    e_af = float(numpy.abs(after - hfull).max()) / sc
                    ck.case("remainder-coupling", (s, where, leave),
                            nontrivial=float(numpy.abs(hcut - hfull).max())
                            > 0, sample=dict(rp, spectrum_err=e_sp,
                                             after_err=e_af))
                    if e_sp > 1e-10:
                        ck.violation("transparent", "remainder-coupling:" +
                                     where, dict(rp, spectrum_err=e_sp), rp)
                    if e_af > 1e-10:
                        ck.violation("restored" if leave == "normal" else
                                     "exception", "remainder-coupling:" +
                                     where, dict(rp, after_err=e_af), rp)


def slice_behaviours(ck, qr, numpy):
    """SliceAlias.tla: objects as (tag, storage) pairs; at(t) hands out an
    object with its own storage (negative control: a view).  Simulated
    behaviours (Enter / Exit / Touch / At) are replayed on a real
    density-matrix evolution and on a real evolution superoperator: whatever
    is read is in the basis the specification says, and after all contexts
    are left every object is in its original representation."""
    import io
    import contextlib
    import tempfile
    import shutil
    from harness import tlaparse
    from quantarhei.qm import LindbladForm
    ck.tlc("SliceAlias", "SliceAlias.cfg", workers=4)
    ck.tlc("SliceAlias", "SliceAlias_view.cfg", count=False,
           expect_violation="RepMatchesTag")
    d = tempfile.mkdtemp(prefix="c04sa_")
    try:
        pref = os.path.join(d, "tr")
        nsim = 200 if ck.thorough else 50
        ck.tlc("SliceAlias", "SliceAlias_sim.cfg",
               simulate="file=%s,num=%d" % (pref, nsim), depth=12, workers=1,
               seed=ck.seed + 21, count=False)
        behs = tlaparse.load_behaviours(pref, must_contain="At")
    finally:
        shutil.rmtree(d, ignore_errors=True)
    if len(behs) < 10:
        raise MachineryFailure("too few SliceAlias behaviours with At")
    rng = numpy.random.RandomState(ck.seed + 9)
    n = 3
    ta = qr.TimeAxis(0.0, 4, 1.0)
    man = qr.Manager()
    for bi, beh in enumerate(behs):
        kind = ("rdme", "eso")[bi % 2]
        A = rng.randn(n, n)
        H = (A + A.T) / 2
        if kind == "eso":
            ham = qr.Hamiltonian(data=H.copy())
            K = numpy.zeros((n, n))
            K[0, n - 1] = 1.0
            sbi = qr.qm.SystemBathInteraction(
                sys_operators=[qr.qm.Operator(data=K)], rates=(0.05,))
            ev = qr.qm.EvolutionSuperOperator(
                ta, ham=ham, relt=LindbladForm(ham, sbi, as_operators=False))
            ev.set_dense_dt(2)
            with contextlib.redirect_stdout(io.StringIO()):
                ev.calculate()
        else:
            v = rng.randn(n, n) + 1j * rng.randn(n, n)
            d0 = v.dot(v.conj().T)
            d0 /= numpy.trace(d0)
            ev = qr.ReducedDensityMatrixEvolution(
                ta, qr.ReducedDensityMatrix(data=d0.copy()))
            for k in range(1, 4):
                ev.data[k, :, :] = (k + 1) * d0 + 0.1 * k * numpy.eye(n)
        ref = {1: numpy.array(ev.data).copy()}
        objs = {1: ev}
        cms, Ss, hist = [], [], []
        bad = None

        def along(R0):
            X = R0
            for S in Ss:
                S1 = numpy.linalg.inv(S)
                X = numpy.einsum('ab,...bc,cd->...ad', S1, X, S)
            return X
        try:
            for act, st in beh[1:]:
                a = st["_args"]
                if act == "Enter":
                    Bq = rng.randn(n, n)
                    if len(cms) % 2:
                        Bq = Bq + 1j * rng.randn(n, n)
                    op = qr.qm.SelfAdjointOperator(
                        data=(Bq + Bq.conj().T) / 2)
                    cm = qr.eigenbasis_of(op)
                    cm.__enter__()
                    cms.append(cm)
                    Ss.append(numpy.array(man.basis_transformations[-1]))
                    hist.append(["enter"])
                elif act == "Exit":
                    cms.pop().__exit__(None, None, None)
                    Ss.pop()
                    hist.append(["exit"])
                elif act == "At":
                    k = int(st["nobj"])
                    with contextlib.redirect_stdout(io.StringIO()):
                        objs[k] = ev.at(2.0)
                    ref[k] = ref[1][2].copy()
                    hist.append(["at", k])
                elif act == "Touch":
                    o = int(a[0])
                    got = numpy.array(objs[o].data)
                    hist.append(["touch", o])
                    if kind == "rdme":
                        want = along(ref[o])
                        e = float(numpy.abs(got - want).max()) / float(
                            numpy.abs(want).max())
                        if e > 1e-9:
                            bad = ("transparent", "object %d read at depth "
                                   "%d is not in the context basis (%.2e)"
                                   % (o, len(cms), e))
                            break
                else:
                    raise MachineryFailure("unknown action " + act)
        finally:
            while cms:
                cms.pop().__exit__(None, None, None)
        if bad is None:
            for o, ob in objs.items():
                e = float(numpy.abs(numpy.array(ob.data) - ref[o]).max()) / \
                    float(numpy.abs(ref[o]).max())
                if e > 1e-9:
                    bad = ("restored", "object %d (%s) not in its original "
                           "representation after all contexts were left "
                           "(%.2e)" % (o, "evolution" if o == 1 else
                                       "taken with at()", e))
                    break
        ck.case("slice-behaviour", (bi, str(hist)),
                nontrivial=any(h[0] == "at" for h in hist) and any(
                    h[0] == "enter" for h in hist),
                sample=dict(object=kind, history=hist))
        ck.traces_validated += 1
        if bad:
            ck.violation(bad[0], "slice-behaviour:" + kind,
                         dict(object=kind, history=hist, why=bad[1]),
                         dict(kind="slice-behaviour", history=hist))
        _reset_manager(man)


def slices_created_inside(ck, qr, numpy):
    """Objects CREATED inside a context by the public accessors of evolutions
    (`at(t)` of density-matrix evolutions and of the evolution superoperator):
    inside they are presented in the context basis; after the context is left
    (normally or through an exception) both the new object and the evolution
    it was taken from are in the original representation."""
    import io
    import contextlib
    from quantarhei.qm import LindbladForm
    rng = numpy.random.RandomState(ck.seed + 8)

    class Boom(Exception):
        pass
    for s in range(6 if ck.thorough else 3):
        n = 2 + s % 3
        A = rng.randn(n, n)
        H = (A + A.T) / 2
        if s % 2:
            Ai = rng.randn(n, n)
            H = H + 1j * (Ai - Ai.T) / 2
        Bm = rng.randn(n, n)
        ta = qr.TimeAxis(0.0, 4, 1.0)
        v = rng.randn(n, n) + 1j * rng.randn(n, n)
        d0 = v.dot(v.conj().T)
        d0 /= numpy.trace(d0)

        def make(kind):
            if kind == "eso":
                ham = qr.Hamiltonian(data=numpy.real(H).copy())
                K = numpy.zeros((n, n))
                K[0, n - 1] = 1.0
                sbi = qr.qm.SystemBathInteraction(
                    sys_operators=[qr.qm.Operator(data=K)], rates=(0.05,))
                e = qr.qm.EvolutionSuperOperator(
                    ta, ham=ham, relt=LindbladForm(ham, sbi,
                                                   as_operators=False))
                e.set_dense_dt(2)
                with contextlib.redirect_stdout(io.StringIO()):
                    e.calculate()
                return e
            r0 = qr.ReducedDensityMatrix(data=d0.copy())
            cls = (qr.ReducedDensityMatrixEvolution if kind == "rdme"
                   else qr.DensityMatrixEvolution)
            ev = cls(ta, r0)
            for k in range(1, 4):
                ev.data[k, :, :] = (k + 1) * d0 + 0.1 * k * numpy.eye(n)
            return ev
        for kind in ("dme", "rdme", "eso"):
            for where in ("other", "nested"):
                for leave in ("normal", "exception"):
                    rp = dict(kind="slice-created-inside", seed=ck.seed,
                              system=s, object=kind, context=where,
                              leave=leave)
                    with ck.guarded("restored", "slice-created-inside", rp,
                                    rp):
                        obj = make(kind)
                        ref = numpy.array(obj.data).copy()
                        Aop = qr.qm.SelfAdjointOperator(data=(Bm + Bm.T) / 2)
                        Hop = qr.qm.SelfAdjointOperator(data=H.copy())
                        ops = dict(other=[Aop], nested=[Hop, Aop])[where]
                        x = None
                        try:
                            with contextlib.ExitStack() as stack:
                                for op in ops:
                                    stack.enter_context(qr.eigenbasis_of(op))
                                with contextlib.redirect_stdout(
                                        io.StringIO()):
                                    x = obj.at(2.0)
                                _ = numpy.array(x.data)
                                if leave == "exception":
                                    raise Boom()
                        except Boom:
                            pass
                        sc = float(numpy.abs(ref).max())
                        e_new = float(numpy.abs(numpy.array(x.data) - ref[2]
                                                ).max()) / sc
                        e_src = float(numpy.abs(numpy.array(obj.data) - ref
                                                ).max()) / sc
                        ck.case("slice-created-inside",
                                (s, kind, where, leave),
                                sample=dict(rp, new_object_err=e_new,
                                            source_err=e_src))
                        clause = "restored" if leave == "normal" else \
                            "exception"
                        if e_src > 1e-9:
                            ck.violation(clause, "at()-inside-context:"
                                         "source:" + kind,
                                         dict(rp, err=e_src), rp)
                        if e_new > 1e-9:
                            ck.violation(clause, "at()-inside-context:"
                                         "new-object:" + kind,
                                         dict(rp, err=e_new), rp)


def library_traces(ck, qr, numpy):
    """Public builder / calculator calls (harness/registry.py) made outside
    and inside basis contexts, recorded by the BasisTracer and validated by
    TLC against BasisTrace: every primitive transition of the manager must be
    one the specification allows, the registry of every level that is left
    must be the specified one, and every call must hand the bookkeeping back
    as it found it."""
    from harness.tracer import BasisTracer
    from harness import registry as R
    reg = R.build_registry()
    names = sorted(reg)
    tr = BasisTracer()
    tr.install()
    traces, labels = [], []
    rng = ck.rng
    H3 = qr.Hamiltonian(data=numpy.array([[0.0, 0.2, 0.0], [0.2, 1.0, 0.1],
                                          [0.0, 0.1, 1.5]]))
    try:
        progs = []
        # inside the 3x3 context only calls whose managed objects are 3x3
        # (objects of another dimension cannot live in that context)
        inctx = [n for n in names if n not in (
            "aggregate_build_mult2", "molecule_hamiltonian",
            "molecule_excited_density_matrix")]
        for name in names:
            progs.append([("call", name)])
        for name in inctx:
            progs.append([("ctx", [("call", name)])])
        for k in range(60 if ck.thorough else 15):
            prog = []
            for j in range(rng.randint(1, 4)):
                c = ("call", rng.choice(inctx))
                x = rng.random()
                if x < 0.4:
                    prog.append(("ctx", [c]))
                elif x < 0.55:
                    prog.append(("ctx", [("ctx", [c]), c]))
                elif x < 0.7:
                    prog.append(("ctxraise", [c]))
                else:
                    prog.append(c)
            progs.append(prog)

        class Boom(Exception):
            pass

        def run(ops):
            for op in ops:
                if op[0] == "call":
                    try:
                        with qr.energy_units("1/cm"):
                            tr.lib_call(op[1], reg[op[1]])
                    except Boom:
                        raise
                    except Exception:
                        pass     # e.g. routines that refuse to run in a context
                elif op[0] == "ctx":
                    with qr.eigenbasis_of(H3):
                        run(op[1])
                elif op[0] == "ctxraise":
                    try:
                        with qr.eigenbasis_of(H3):
                            run(op[1])
                            raise Boom()
                    except Boom:
                        pass
        for prog in progs:
            tr.take()
            run(prog)
            over = tr.overflow
            ev = tr.take()
            man = qr.Manager()
            if len(man.basis_stack) != 1:
                ck.violation("bookkeeping-restored", "library:" + str(prog)[:60],
                             dict(program=str(prog), stack=list(man.basis_stack)),
                             dict(program=str(prog)))
                _reset_manager(man)
            if over or not ev:
                continue
            traces.append(ev)
            labels.append(prog)
            ck.case("library-trace", str(prog), nontrivial=len(ev) > 2,
                    sample=dict(program=str(prog)[:200], events=len(ev)))
    finally:
        tr.uninstall()
    rej = ck.validate_traces("BasisTrace", "BasisTrace.cfg", traces, workers=8)
    if rej:
        t = traces[rej["tid"] - 1]
        prog = labels[rej["tid"] - 1]
        ev = t[min(rej["l"], len(t)) - 1]
        libs = [e["name"] for e in t[:rej["l"]] if e["ev"] == "lib_begin"]
        ck.violation("library-" + str(rej["violated"]),
                     "trace:%s:%s" % (rej["violated"],
                                      libs[-1] if libs else "-"),
                     dict(program=str(prog)[:300], event_index=rej["l"],
                          event=ev, state=rej["state"][:600]),
                     dict(program=str(prog)))
    # the repository's own unit tests under the tracer
    from harness import repotests
    tr2 = BasisTracer()
    tr2.install()
    try:
        ttraces, tlabels, tskip = repotests.run_under(tr2, thorough=ck.thorough)
    finally:
        tr2.uninstall()
    for lab, t in zip(tlabels, ttraces):
        ck.case("repo-test-trace", lab, nontrivial=len(t) >= 2,
                sample=dict(test=lab, events=len(t)))
    if tskip:
        ck.note("%d repository tests touch more than 60 managed objects and "
                "were not validated" % tskip)
    if len(ttraces) < 5:
        raise MachineryFailure("only %d repository tests produced basis "
                               "events" % len(ttraces))
    rej = ck.validate_traces("BasisTrace", "BasisTrace.cfg", ttraces,
                             workers=8)
    if rej:
        t = ttraces[rej["tid"] - 1]
        ev = t[min(rej["l"], len(t)) - 1]
        ck.violation("repo-test-" + str(rej["violated"]),
                     "testtrace:%s:%s" % (rej["violated"], ev.get("ev")),
                     dict(test=tlabels[rej["tid"] - 1], event_index=rej["l"],
                          event=ev, state=rej["state"][:600]),
                     dict(test=tlabels[rej["tid"] - 1]))

    # the shipped example scripts under the tracer
    tr3 = BasisTracer()
    tr3.install()
    try:
        etraces, elabels, eouts, eskip = repotests.run_examples_under(
            tr3, thorough=ck.thorough)
    finally:
        tr3.uninstall()
    for lab, t, o in zip(elabels, etraces, eouts):
        ck.case("example-trace", lab, nontrivial=len(t) >= 2,
                sample=dict(script=lab, events=len(t), outcome=o))
    if eskip:
        ck.note("%d example scripts touch more than 60 managed objects and "
                "were not validated" % eskip)
    if repotests.RAN[0] < 12:
        raise MachineryFailure("only %d example scripts were run" %
                               repotests.RAN[0])
    if len(etraces) < 4:
        ck.note("only %d example scripts produced basis events" %
                len(etraces))
    rej = ck.validate_traces("BasisTrace", "BasisTrace.cfg", etraces,
                             workers=8)
    if rej:
        t = etraces[rej["tid"] - 1]
        ev = t[min(rej["l"], len(t)) - 1]
        ck.violation("example-" + str(rej["violated"]),
                     "extrace:%s:%s" % (rej["violated"], ev.get("ev")),
                     dict(script=elabels[rej["tid"] - 1],
                          event_index=rej["l"], event=ev,
                          state=rej["state"][:600]),
                     dict(script=elabels[rej["tid"] - 1]))

    # negative control of the binding: an exit that does not restore the
    # depth must be rejected
    bad = [[dict(ev="enter", obj="o0", oldtag=0, prot=False, tag=0, depth=1,
                 ntrans=1, flag=True),
            dict(ev="exit", exc=False, moved=[], depth=1, ntrans=1,
                 flag=True)]]
    n0 = ck.traces_validated
    if not ck.validate_traces("BasisTrace", "BasisTrace.cfg", bad):
        raise MachineryFailure("corrupted basis trace accepted")
    ck.traces_validated = n0
