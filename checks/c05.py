# -*- coding: utf-8 -*-
"""C05 — energy-units management is transparent and contexts restore units.

S  specs/UnitsManager.tla (+ UnitsTrace.tla)
T  TLC: every interleaving of user contexts, library routines (programs over
   the Manager primitives, incl. the single saved-units slot) and exceptions
   in the bound; negative control = Aggregate.build before the repair.
H  code->spec: the Manager primitives and the context managers are wrapped at
   run time; random nested programs (contexts, exceptions, every public call
   of harness/registry.py made inside every context) are recorded and TLC
   validates every trace against UnitsTrace: Restore, counter/flag
   consistency, CallerUnitsPreserved whenever control is with the driver,
   ReturnsPreserveUnits at every normal return of a library call.
   conversion matrix: every ordered pair of supported units x every
   units-managed accessor, value read under u2 vs v*f(u1)/f(u2) with factors
   from scipy.constants (reciprocal rule for nm).
"""
import math

from harness.common import Check, MachineryFailure
from harness import registry as R


class Boom(Exception):
    pass


def main():
    ck = Check("C05")
    import numpy
    import quantarhei as qr
    from quantarhei.core.managers import Manager
    from harness.tracer import UnitsTracer

    man = Manager()
    rng = ck.rng

    # ------------------------------------------------------------------ TLC
    cfg = "UnitsManager_large.cfg" if ck.thorough else "UnitsManager.cfg"
    res = ck.tlc("UnitsManager", cfg, coverage=True, workers=16)
    for act in ("UEnterEU", "UConstruct", "UEnterObj", "UEnterLen", "UExit", "UCall", "URaise", "LStep",
                "LReturn", "LRaise", "Unwind", "UCatch"):
        if res["coverage"].get(act, (0, 0))[1] == 0:
            raise MachineryFailure("vacuous: action %s never taken" % act)
    ck.tlc("UnitsManager", "UnitsManager_defect.cfg", count=False,
           expect_violation="CallerUnitsPreserved")
    ck.tlc("UnitsManager", "UnitsManager_defect2.cfg", count=False,
           expect_violation="CallerUnitsPreserved")

    # --------------------------------------------- recorded traces (code->spec)
    reg = R.build_registry()
    names = sorted(reg)
    EU = ["1/cm", "eV", "meV", "THz", "nm", "int", "1/fs", "Ha", "J"]
    LU = ["A", "nm", "Bohr", "m"]
    tr = UnitsTracer()
    tr.install()
    call_log = []

    def gen_block(depth, budget):
        ops = []
        n = rng.randint(1, 3)
        for i in range(n):
            if budget[0] <= 0:
                break
            budget[0] -= 1
            x = rng.random()
            if x < 0.12:
                # a context-manager object built now and entered later
                ops.append(("mk", "e%d" % rng.randint(0, 2), rng.choice(EU)))
            elif x < 0.27 and depth < 3:
                ops.append(("use", "e%d" % rng.randint(0, 2),
                            gen_block(depth + 1, budget)))
            elif x < 0.45 and depth < 3:
                ops.append(("eu", rng.choice(EU), gen_block(depth + 1, budget)))
            elif x < 0.45 and depth < 3:
                ops.append(("len", rng.choice(LU), gen_block(depth + 1, budget)))
            elif x < 0.85:
                ops.append(("call", rng.choice(names)))
            elif x < 0.93 and depth > 0:
                ops.append(("raise",))
            else:
                ops.append(("try", gen_block(depth, budget)))
        return ops

    pool = {}
    opened = set()

    def run_block(ops):
        for op in ops:
            if op[0] == "mk":
                if op[1] not in opened:
                    pool[op[1]] = qr.energy_units(op[2])
            elif op[0] == "use":
                # context managers are not re-entrant
                if op[1] in pool and op[1] not in opened:
                    opened.add(op[1])
                    try:
                        with pool[op[1]]:
                            run_block(op[2])
                    finally:
                        opened.discard(op[1])
                else:
                    run_block(op[2])
            elif op[0] == "eu":
                with qr.energy_units(op[1]):
                    run_block(op[2])
            elif op[0] == "len":
                with qr.length_units(op[1]):
                    run_block(op[2])
            elif op[0] == "call":
                ub = man.get_current_units("energy")
                inctx = bool(man._in_energy_units_context)
                try:
                    tr.lib_call(op[1], reg[op[1]])
                    call_log.append((op[1], ub, "ok"))
                except Boom:
                    raise
                except Exception as e:
                    # a library call may fail (some constructors insist on an
                    # energy_units context; exotic units); units must still
                    # be handled, which the trace decides
                    if inctx:
                        call_log.append((op[1], ub,
                                         "raised " + type(e).__name__))
            elif op[0] == "raise":
                raise Boom()
            elif op[0] == "try":
                try:
                    run_block(op[1])
                except Boom:
                    pass

    traces = []
    programs = []
    try:
        # (a) every registry call inside every energy-units context
        for u in EU:
            for name in names:
                prog = [("eu", u, [("call", name)])]
                tr.take()
                run_block(prog)
                traces.append(tr.take())
                programs.append(prog)
                ck.case("call-in-context", (u, name), sample=dict(
                    units=u, call=name))
        # (a2) context-manager objects built under one set of units and
        #      entered (also repeatedly, also left by an exception) under
        #      another
        U4 = ["1/cm", "eV", "nm", "int"]
        for ub in U4:
            for uo in U4:
                for ui in U4:
                    if ub == uo:
                        continue
                    prog = [("eu", ub, [("mk", "e0", ui)]),
                            ("eu", uo, [("use", "e0", [("call",
                                                        "convert_function")]),
                                        ("call", "molecule_create_get_set"),
                                        ("try", [("use", "e0",
                                                  [("raise",)])]),
                                        ("call", "convert_function")])]
                    pool.clear()
                    opened.clear()
                    tr.take()
                    run_block(prog)
                    traces.append(tr.take())
                    programs.append(prog)
                    ck.case("prebuilt-context", (ub, uo, ui),
                            sample=_short(prog))
        # (b) random nested programs with exceptions
        nprog = 400 if ck.thorough else 80
        for k in range(nprog):
            prog = [("try", gen_block(0, [rng.randint(3, 9)]))]
            pool.clear()
            opened.clear()
            tr.take()
            run_block(prog)
            traces.append(tr.take())
            programs.append(prog)
            ck.case("random-program", k, nontrivial=len(traces[-1]) > 4,
                    sample=_short(prog))
    finally:
        tr.uninstall()
    bad_calls = sorted({(n, u, s) for (n, u, s) in call_log if s != "ok"})
    for n, u, s in bad_calls[:10]:
        ck.note("library call %s under energy units %s %s (units handling "
                "still validated)" % (n, u, s))
    traces = [t for t in traces if t]
    rej = ck.validate_traces("UnitsTrace", "UnitsTrace.cfg", traces, workers=8)
    if rej:
        t = traces[rej["tid"] - 1]
        prog = programs[rej["tid"] - 1]
        ev = t[min(rej["l"], len(t)) - 1]
        libs = [e["name"] for e in t[:rej["l"]] if e["ev"] == "lib_begin"]
        key = "trace:%s:%s" % (rej["violated"], libs[-1] if libs else "-")
        if rej["violated"] == "Accepting":
            # a primitive transition the spec cannot explain
            ck.violation("manager-transition", key, dict(
                program=_short(prog), event_index=rej["l"], event=ev,
                state=rej["state"][:500]), dict(program=prog))
        else:
            ck.violation(str(rej["violated"]), key, dict(
                program=_short(prog), event_index=rej["l"], event=ev,
                state=rej["state"][:500]), dict(program=prog))

    # ------------------- the repository's own unit tests under the tracer
    # Every Manager transition the tests exercise (their assertions do not
    # look at the manager) must be one the specification allows; contexts
    # must restore; counter and flag must agree with the open contexts.
    from harness import repotests
    tr2 = UnitsTracer()
    tr2.install()
    try:
        ttraces, tlabels, tskip = repotests.run_under(tr2, thorough=ck.thorough)
    finally:
        tr2.uninstall()
    for lab, t in zip(tlabels, ttraces):
        ck.case("repo-test-trace", lab, nontrivial=len(t) >= 2,
                sample=dict(test=lab, events=len(t)))
    if len(ttraces) < 10:
        raise MachineryFailure("only %d repository tests produced units "
                               "events" % len(ttraces))
    rej = ck.validate_traces("UnitsTrace", "UnitsTrace_tests.cfg", ttraces,
                             workers=8)
    if rej:
        t = ttraces[rej["tid"] - 1]
        ev = t[min(rej["l"], len(t)) - 1]
        ck.violation("repo-test-" + str(rej["violated"]),
                     "testtrace:%s:%s" % (rej["violated"], ev.get("ev")),
                     dict(test=tlabels[rej["tid"] - 1], event_index=rej["l"],
                          event=ev, state=rej["state"][:500]),
                     dict(test=tlabels[rej["tid"] - 1]))

    # ------------------- the shipped example scripts under the tracer
    # (quantarhei.wizard.examples: the usage the documentation shows; the
    # ones that stop with an exception on this tree exercise error exits)
    tr3 = UnitsTracer()
    tr3.install()
    try:
        etraces, elabels, eouts, eskip = repotests.run_examples_under(
            tr3, thorough=ck.thorough)
    finally:
        tr3.uninstall()
    for lab, t, o in zip(elabels, etraces, eouts):
        ck.case("example-trace", lab, nontrivial=len(t) >= 2,
                sample=dict(script=lab, events=len(t), outcome=o))
    # (a script that stops early on a changed tree records fewer events;
    # the guard is about the scripts having been run at all)
    if repotests.RAN[0] < 12:
        raise MachineryFailure("only %d example scripts were run" %
                               repotests.RAN[0])
    if len(etraces) < 8:
        ck.note("only %d example scripts produced units events" %
                len(etraces))
    rej = ck.validate_traces("UnitsTrace", "UnitsTrace_tests.cfg", etraces,
                             workers=8)
    if rej:
        t = etraces[rej["tid"] - 1]
        ev = t[min(rej["l"], len(t)) - 1]
        ck.violation("example-" + str(rej["violated"]),
                     "extrace:%s:%s" % (rej["violated"], ev.get("ev")),
                     dict(script=elabels[rej["tid"] - 1],
                          event_index=rej["l"], event=ev,
                          state=rej["state"][:500]),
                     dict(script=elabels[rej["tid"] - 1]))

    # negative control of the binding: a trace in which a call returns with
    # changed units must be flagged
    badtr = [[
        dict(ev="lib_begin", name="x"),
        dict(ev="rawset", utype="energy", units="1/cm", energy="1/cm",
             length="A", saved_t="energy", saved_u="int", euCount=0,
             euFlag=False),
        dict(ev="lib_end", name="x", exc=False)]]
    n0 = ck.traces_validated
    rej = ck.validate_traces("UnitsTrace", "UnitsTrace.cfg", badtr)
    ck.traces_validated = n0
    if not rej or rej["violated"] not in ("ReturnsPreserveUnits",
                                          "TCallerUnitsPreserved"):
        raise MachineryFailure("units-changing trace accepted: binding is "
                               "vacuous (%r)" % (rej,))

    # ------------------------------------------------------ conversion matrix
    conversion_matrix(ck, qr, numpy)
    results_invariant(ck, qr, numpy, reg)

    ck.assume("TLC bound: 3(4) energy units, 1(2) length units, nesting <= 2"
              "(3), behaviours <= 12(16) steps; library routines modelled as "
              "the programs convert/set_rwa/build over the Manager primitives")
    ck.assume("an exceptional return of a routine that uses the raw "
              "set/restore pair (Aggregate.build) is modelled but not "
              "asserted to preserve units (DESIGN.md C05)")
    ck.assume("reference conversion factors from scipy.constants; Hartree "
              "compared at 1e-7 relative (the library hard-codes the CODATA "
              "2014 value), all other units at 1e-12")
    return ck.finish()


def _short(prog):
    s = repr(prog)
    return s if len(s) < 400 else s[:400] + "..."


def results_invariant(ck, qr, numpy, reg):
    """Every registry call is made under every energy-units context with its
    inputs expressed in those units; its result, converted back with the
    reference factors, must be the result obtained in internal units."""
    def internal(val, kind, u):
        if isinstance(kind, tuple):
            return numpy.concatenate([internal(v, k, u)
                                      for v, k in zip(val, kind)])
        a = numpy.atleast_1d(numpy.array(val)).astype(complex).ravel()
        if kind == "energy":
            a = numpy.array([R.to_internal(x.real, u) +
                             1j * R.to_internal(x.imag, u) for x in a])
        return a

    EU = ["1/cm", "eV", "meV", "THz", "nm", "J", "Ha", "1/fs"]
    noted = set()
    for name in sorted(reg):
        kind = R.RETURNS.get(name)
        if kind is None:
            continue
        try:
            with qr.energy_units("int"):
                base = internal(reg[name](), kind, "int")
        except Exception:
            continue
        sc = max(float(numpy.abs(base).max()), 1e-300)
        for u in EU:
            rp = dict(kind="result-invariant", call=name, units=u)
            try:
                with qr.energy_units(u):
                    got = internal(reg[name](), kind, u)
            except Exception:
                continue        # refusal under exotic units: see the notes
            tol = 1e-6 if u in ("Ha", "a.u.") else 1e-9
            ok = got.shape == base.shape and \
                float(numpy.abs(got - base).max()) <= tol * sc
            plain = "energy" not in (kind if isinstance(kind, tuple)
                                     else (kind,))
            if plain:
                # rates, populations, spectra computed by calculators called
                # inside a context: not a units-managed accessor, outside the
                # statement of C05 -- observed and reported only
                if not ok and name not in noted:
                    noted.add(name)
                    ck.note("observation outside C05: the result of %s "
                            "depends on the energy units active at call "
                            "time (e.g. under %s)" % (name, u))
                continue
            ck.case("result-units-invariant", (name, u),
                    sample=dict(rp, ok=bool(ok)))
            if not ok:
                err = float(numpy.abs(got - base).max() / sc) if \
                    got.shape == base.shape else None
                ck.violation("result-units-invariant",
                             "result:%s:%s" % (name, u), dict(rp, rel=err),
                             rp)


def conversion_matrix(ck, qr, numpy):
    from quantarhei.core.managers import Manager
    man = Manager()
    EU = [u for u in Manager.units["energy"]]
    LU = [u for u in Manager.units["length"]]
    v0 = 1234.5

    def tol(u1, u2):
        return 1e-7 if ("Ha" in (u1, u2) or "a.u." in (u1, u2)) else 1e-12

    # accessor: (name, write(v) under u1 -> obj, read(obj) under u2)
    def acc_molecule():
        def w(v):
            return qr.Molecule([0.0, v])

        def rd(o):
            return o.get_energy(1)
        return w, rd

    def acc_molecule_set():
        def w(v):
            m = qr.Molecule([0.0, 1.0])
            m.set_energy(1, v)
            return m

        def rd(o):
            return o.get_energy(1)
        return w, rd

    def acc_mode():
        def w(v):
            return qr.Mode(v)

        def rd(o):
            return o.get_energy(0, no_conversion=False)
        return w, rd

    def acc_coupling():
        def w(v):
            with qr.energy_units("int"):
                a = qr.Aggregate([qr.Molecule([0.0, 1.0]),
                                  qr.Molecule([0.0, 1.1])])
            a.set_resonance_coupling(0, 1, v)
            return a

        def rd(o):
            return o.get_resonance_coupling(0, 1)
        return w, rd

    def acc_hamiltonian():
        def w(v):
            return qr.Hamiltonian(data=[[0.0, 0.0], [0.0, v]])

        def rd(o):
            return o.data[1, 1]
        return w, rd

    def acc_built_hamiltonian():
        def w(v):
            a = qr.Aggregate([qr.Molecule([0.0, v])])
            a.build()
            return a

        def rd(o):
            return o.get_Hamiltonian().data[1, 1]
        return w, rd

    def acc_reorg():
        def w(v):
            ta = qr.TimeAxis(0.0, 50, 1.0)
            return qr.CorrelationFunction(ta, dict(
                ftype="OverdampedBrownian", reorg=v, cortime=100.0, T=300.0,
                matsubara=2))

        def rd(o):
            return o.get_reorganization_energy()
        return w, rd

    def acc_state_coupling(via):
        """coupling between two two-exciton states of a trimer, (1,0,1) and
        (0,1,1): the resonance coupling of molecules 0 and 1"""
        def w(v):
            with qr.energy_units("int"):
                a = qr.Aggregate([qr.Molecule([0.0, 1.0]),
                                  qr.Molecule([0.0, 1.1]),
                                  qr.Molecule([0.0, 1.2])])
            a.set_resonance_coupling(0, 1, v)
            a.build(mult=2)
            return a

        def rd(o):
            sts = {tuple(int(x) for x in st.elsignature): (k, st)
                   for (k, st) in o.elstates(mult=2)}
            (ka, sa), (kb, sb) = sts[(1, 0, 1)], sts[(0, 1, 1)]
            if via == "coupling":
                return o.coupling(sa, sb)
            return o.get_electronic_Hamiltonian().data[ka, kb]
        return w, rd

    def acc_cutoff(factor):
        """coupling of a Hamiltonian after its part above / below a cut-off
        (given in the current units) was set aside and recovered"""
        def w(v):
            h = qr.Hamiltonian(data=[[0.0, 0.0, 0.0], [0.0, 10 * v, v],
                                     [0.0, v, 11 * v]])
            u1 = man.get_current_units("energy")
            cut = R.from_internal(factor * R.to_internal(v, u1), u1)
            h.subtract_cutoff_coupling(cut)
            h.recover_cutoff_coupling()
            return h

        def rd(o):
            return o.data[1, 2]
        return w, rd

    def acc_convert():
        return None, None

    accessors = dict(molecule_init=acc_molecule(),
                     molecule_set_energy=acc_molecule_set(),
                     mode_frequency=acc_mode(),
                     resonance_coupling=acc_coupling(),
                     hamiltonian_data=acc_hamiltonian(),
                     built_hamiltonian=acc_built_hamiltonian(),
                     corfce_reorg=acc_reorg(),
                     twoexciton_state_coupling=acc_state_coupling("coupling"),
                     electronic_hamiltonian_twoexciton=acc_state_coupling(
                         "hamiltonian"),
                     coupling_after_cutoff_below=acc_cutoff(0.4),
                     coupling_after_cutoff_above=acc_cutoff(2.5))
    noted_nm = set()
    for name, (w, rd) in accessors.items():
        stored = {}
        for u1 in EU:
            try:
                with qr.energy_units(u1):
                    obj = w(v0)
            except Exception as e:
                ck.violation("conversion-exact", "accessor:%s:write:%s" %
                             (name, u1), dict(accessor=name, u1=u1,
                                              exception=repr(e)[:200]),
                             dict(accessor=name, u1=u1))
                continue
            want_int = R.to_internal(v0, u1)
            for u2 in EU:
                try:
                    with qr.energy_units(u2):
                        got = float(numpy.real(rd(obj)))
                except ZeroDivisionError as e:
                    if u2 != "nm":
                        raise
                    # a wavelength for a vanishing energy (here: the zero
                    # couplings between unrelated states that the accessor
                    # converts on its way) is undefined; the scalar
                    # conversion refuses it
                    if (name, "nm0") not in noted_nm:
                        noted_nm.add((name, "nm0"))
                        ck.note("accessor %s under nm: conversion of a zero "
                                "energy to a wavelength refused "
                                "(ZeroDivisionError); not a conversion of "
                                "the supplied quantity" % name)
                    continue
                except Exception as e:
                    ck.violation("conversion-exact", "accessor:%s:read:%s" %
                                 (name, u2), dict(accessor=name, u1=u1, u2=u2,
                                                  exception=repr(e)[:200]),
                                 dict(accessor=name, u1=u1, u2=u2))
                    continue
                want = R.from_internal(want_int, u2)
                rel = abs(got - want) / abs(want)
                ck.case("conversion-exact", (name, u1, u2),
                        nontrivial=u1 != u2,
                        sample=dict(accessor=name, u1=u1, u2=u2, v=v0,
                                    got=got, want=want))
                if rel > tol(u1, u2):
                    ck.violation("conversion-exact",
                                 "accessor:%s:%s->%s" % (name, u1, u2),
                                 dict(accessor=name, u1=u1, u2=u2, v=v0,
                                      got=got, want=want, rel=rel),
                                 dict(accessor=name, u1=u1, u2=u2))
    # the convert() function
    for u1 in EU:
        for u2 in EU:
            got = float(qr.convert(v0, u1, to=u2))
            want = R.from_internal(R.to_internal(v0, u1), u2)
            ck.case("conversion-exact", ("convert", u1, u2),
                    nontrivial=u1 != u2)
            if abs(got - want) / abs(want) > tol(u1, u2):
                ck.violation("conversion-exact", "convert:%s->%s" % (u1, u2),
                             dict(u1=u1, u2=u2, got=got, want=want),
                             dict(accessor="convert", u1=u1, u2=u2))
    # lengths: molecule position
    for u1 in LU:
        for u2 in LU:
            m = qr.Molecule([0.0, 1.0])
            try:
                with qr.length_units(u1):
                    m.position = [1.5, 0.0, 0.0]
                    a = qr.Aggregate([m])
                with qr.length_units(u2):
                    got = float(man.convert_length_2_current_u(
                        man.convert_length_2_internal_u(1.5)))
            except Exception as e:
                ck.note("length units %s/%s: %r" % (u1, u2, e))
                continue
            ck.case("length-roundtrip", (u1, u2), nontrivial=u1 != u2)
            if abs(got - 1.5) > 1e-12:
                ck.violation("conversion-exact", "length:%s" % u2,
                             dict(u=u2, got=got), dict(u=u2))
        with qr.length_units(u1):
            got = float(man.convert_length_2_internal_u(2.0))
        want = 2.0 * R.LFACT[u1]
        ck.case("length-factor", u1)
        if abs(got - want) / want > 1e-9:
            ck.violation("conversion-exact", "length-factor:%s" % u1,
                         dict(u=u1, got=got, want=want), dict(u=u1))
