# -*- coding: utf-8 -*-
"""C20 — distributed work ranges partition the index range exactly.

S  specs/BlockRanges.tla  (transcription of _calculate_ranges + the machine
   in which every process walks its block in every interleaving, then reduces)
T  TLC: invariants over all instances/schedules in the bound; JSON table of
   the specified blocks; -simulate behaviours (schedules)
H  real _calculate_ranges / block_distributed_* under a fake
   DistributedConfiguration for every (size, rank); replay of the TLC
   schedules through real iterators; real callers (Redfield tensor, Redfield
   rates) run once per fake rank with a summing allreduce and compared with
   the serial result.
"""
import os
import json
import tempfile
import shutil

from harness.common import Check, MachineryFailure, SPECS
from harness import tlaparse


def partition_ok(blocks, start, stop):
    """The property's clauses, evaluated on blocks returned by the code."""
    fails = []
    if not blocks:
        return ["no blocks"]
    if blocks[0][0] != start:
        fails.append("first block does not begin at start")
    if blocks[-1][1] != stop:
        fails.append("last block does not end at stop")
    for i, (a, b) in enumerate(blocks):
        if b < a:
            fails.append("negative block %d" % i)
        if i and blocks[i - 1][1] != a:
            fails.append("blocks %d,%d not contiguous/disjoint" % (i - 1, i))
    lens = [b - a for a, b in blocks]
    if max(lens) - min(lens) > 1:
        fails.append("block sizes differ by more than one")
    return fails


def collected_data(ck, numpy, par, man, FakeDC):
    """collect_block_distributed_data: every rank computes the items of its
    block, ranks > 0 send them, rank 0 gathers; what rank 0 holds afterwards
    is the serial result - every index of the range exactly once (point-to-
    point messages go through an in-memory mailbox)."""
    class MailComm:
        def __init__(self, rank, box):
            self.rank, self.box = rank, box

        def Barrier(self):
            pass

        def Send(self, data, dest=0, tag=0):
            self.box[(self.rank, dest, tag)] = numpy.array(data).copy()

        def Recv(self, buf, source=0, tag=0):
            buf[...] = self.box.pop((source, 0, tag))

    def value(a):
        return numpy.array([[a * 1.5 + 0.25j * (a + 1)]], dtype=complex)
    # (two or more processes: the gathering branch)
    sizes = range(2, 7) if ck.thorough else range(2, 5)
    for size in sizes:
        for n in range(0, 2 * size + 3):
            box = {}
            gathered = None
            broke = None
            for rank in list(range(1, size)) + [0]:
                dc = FakeDC(size, rank)
                dc.comm = MailComm(rank, box)
                old = man.parallel_conf
                man.parallel_conf = dc
                try:
                    dc.start_parallel_region()
                    local = {}
                    for a in par.block_distributed_range(0, n):
                        local[a] = value(a)
                    out = {}
                    par.collect_block_distributed_data(
                        [out, local],
                        lambda cont, tag, data: cont.__setitem__(
                            tag, numpy.array(data).copy()),
                        lambda cont, tag: cont[tag])
                    dc.finish_parallel_region()
                    if rank == 0:
                        gathered = out
                except Exception as ex:
                    broke = "rank %d: %r" % (rank, ex)
                    break
                finally:
                    man.parallel_conf = old
            rp = dict(kind="collect", size=size, n=n)
            ck.case("collected-equals-serial", (size, n),
                    nontrivial=size > 1 and n > 0, sample=rp)
            if broke:
                ck.violation("reduce-equals-serial", "collect:exception",
                             dict(rp, exception=broke[:200]), rp)
                continue
            ok = sorted(gathered.keys()) == list(range(n)) and all(
                numpy.array_equal(gathered[a], value(a)) for a in range(n))
            if not ok:
                ck.violation("reduce-equals-serial", "collect:missing-items",
                             dict(rp, have=sorted(gathered.keys()),
                                  want=n), rp)


def region_programs(ck, numpy, par, man, FakeDC, SPECS):
    """ParallelRegions.tla: programs of nested region starts / ends and
    distributed loops (regions also opened and closed inside open loops, as
    library routines called from a loop body do).  TLC: the level equals the
    number of open regions and every loop takes the same decision at its
    beginning (indices shared?) and at its end (partial results summed?).
    Simulated programs are run rank by rank through the library's own region
    bookkeeping, block_distributed_range and the level test of the
    reductions; the combined result of every loop must be the serial one."""
    import tempfile
    import shutil
    from harness import tlaparse
    ck.tlc("ParallelRegions", "ParallelRegions_always.cfg", workers=4)
    ck.tlc("ParallelRegions", "ParallelRegions_outermostonly.cfg",
           count=False, expect_violation="LevelIsDepth")
    nsim = 400 if ck.thorough else 80
    d = tempfile.mkdtemp(prefix="c20pr_")
    try:
        pref = os.path.join(d, "tr")
        ck.tlc("ParallelRegions", "ParallelRegions_sim.cfg",
               simulate="file=%s,num=%d" % (pref, nsim), depth=11, workers=1,
               seed=ck.seed + 3, count=False)
        behs = tlaparse.load_behaviours(pref)
    finally:
        shutil.rmtree(d, ignore_errors=True)
    progs = [["StartRegion", "BeginLoop", "StartRegion", "FinishRegion",
              "EndLoop", "FinishRegion"],
             ["StartRegion", "StartRegion", "FinishRegion", "BeginLoop",
              "EndLoop", "FinishRegion"]]
    for beh in behs:
        progs.append([act for act, st in beh[1:]])
    seen = set()

    class RegionDC(FakeDC):
        def allreduce(self, A, operation="sum"):
            raise MachineryFailure("not used")

    for prog in progs:
        if tuple(prog) in seen or "BeginLoop" not in prog:
            continue
        seen.add(tuple(prog))
        for size in (2, 3):
            n = 7
            loops = {}            # loop id -> list per rank of (partial, summed)
            levels = []
            broke = None
            for rank in range(size):
                dc = RegionDC(size, rank)
                old = man.parallel_conf
                man.parallel_conf = dc
                try:
                    open_loops = []
                    lid = 0
                    for op in prog:
                        if op == "StartRegion":
                            dc.start_parallel_region()
                        elif op == "FinishRegion":
                            dc.finish_parallel_region()
                        elif op == "BeginLoop":
                            part = numpy.zeros(n)
                            # every loop helper of the library must take the
                            # same decision at the same level
                            helper = (lid + len(prog)) % 4
                            if helper == 0:
                                for k in par.block_distributed_range(0, n):
                                    part[k] += 1.0
                            elif helper == 1:
                                for k in par.block_distributed_list(
                                        list(range(n))):
                                    part[k] += 1.0
                            elif helper == 2:
                                for k in par.block_distributed_array(
                                        numpy.arange(n)):
                                    part[int(k)] += 1.0
                            else:
                                for i, k in par.block_distributed_array(
                                        numpy.arange(n), return_index=True):
                                    part[int(k)] += 1.0
                            open_loops.append((lid, part))
                            lid += 1
                        elif op == "EndLoop":
                            li, part = open_loops.pop()
                            # the test the reductions make
                            summed = dc.parallel_level == 1
                            loops.setdefault(li, []).append((part, summed))
                    levels.append((dc.parallel_level, dc.parallel_region))
                except Exception as ex:
                    broke = repr(ex)[:200]
                finally:
                    man.parallel_conf = old
            rp = dict(kind="region-program", program=prog, size=size)
            ck.case("region-program", (tuple(prog), size),
                    nontrivial="StartRegion" in prog[prog.index(
                        "BeginLoop"):])
            if broke:
                ck.violation("regions-nest", "exception",
                             dict(rp, exception=broke), rp)
                continue
            bad = None
            for li, parts in loops.items():
                if len(parts) != size:
                    continue
                if parts[0][1]:
                    total = sum(p for p, sm in parts)
                else:
                    total = parts[0][0]          # what the root holds
                if numpy.abs(total - 1.0).max() != 0:
                    bad = (li, total.tolist())
            # closed programs hand the configuration back at level 0
            closed = prog.count("StartRegion") == prog.count("FinishRegion")
            if bad:
                ck.violation("reduce-equals-serial",
                             "nested-regions:loop-result",
                             dict(rp, loop=bad[0], result=bad[1]), rp)
            elif closed and any(lv != (0, 0) for lv in levels):
                ck.violation("regions-nest", "level-not-restored",
                             dict(rp, levels=levels), rp)
        ck.traces_validated += 1


def main():
    ck = Check("C20")
    import numpy
    from quantarhei.core import parallel as par
    from quantarhei.core.managers import Manager

    class FakeComm:
        def Barrier(self):
            pass

    class FakeDC(par.DistributedConfiguration):
        """A DistributedConfiguration that pretends to be rank `rank` of
        `size` MPI processes."""

        def __init__(self, size, rank, totals=None):
            super().__init__()
            # the library's own region bookkeeping (start_parallel_region /
            # finish_parallel_region) runs as with MPI; only the
            # communicator is a stand-in
            self.have_mpi = True
            self.comm = FakeComm()
            self.use_steerer = False
            self.size = size
            self.rank = rank
            self.totals = totals if totals is not None else []
            self.ncall = 0
            self.partial = None

        def allreduce(self, A, operation="sum"):
            if self.parallel_region < 1:
                raise Exception("not in a parallel region")
            if self.parallel_level != 1:
                return
            k = self.ncall
            self.ncall += 1
            if k < len(self.totals):
                A[...] = self.totals[k]
            else:
                self.partial = A.copy()
                raise StopPass()

    class StopPass(Exception):
        pass

    man = Manager()

    persistent = {}

    def with_fake(size, rank, fn, totals=None, keep=False):
        """Runs fn(dc) with the Manager's DistributedConfiguration replaced
        by a fake rank.  keep=True reuses ONE configuration object per
        (size, rank) for the whole run, as a real process does: whatever the
        library remembers on it from earlier loops is present."""
        old = man.parallel_conf
        if keep:
            dc = persistent.get((size, rank))
            if dc is None:
                dc = persistent[(size, rank)] = FakeDC(size, rank, totals)
        else:
            dc = FakeDC(size, rank, totals)
        man.parallel_conf = dc
        try:
            return fn(dc), dc
        finally:
            man.parallel_conf = old

    # ---------------------------------------------------------------- TLC (S,T)
    cfg = "BlockRanges_large.cfg" if ck.thorough else "BlockRanges.cfg"
    res = ck.tlc("BlockRanges", cfg, coverage=True, workers=16)
    for act in ("StepAny", "Reduce", "NewLoop"):
        if res["coverage"].get(act, (0, 0))[1] == 0:
            raise MachineryFailure("vacuous: action %s never taken" % act)
    # negative control: the variant that ignores `start` must be rejected
    # unbounded: TLAPS proves the partition for EVERY number of processes
    # and EVERY length (Starts, Contiguous, Ends, Balanced); TLC checks that
    # the proved transcription and the model-checked one are the same
    # functions; a transcription with one changed branch must be unprovable
    ck.tlc("BlockRangesLink", "BlockRangesLink.cfg", count=False, workers=1)
    proved, total = ck.tlaps("BlockRangesProof")
    if proved != total or total < 40:
        raise MachineryFailure("TLAPS: %d of %d obligations of "
                               "BlockRangesProof proved" % (proved, total))
    ck.note("TLAPS: all %d obligations of BlockRangesProof proved "
            "(partition for every size and length)" % total)
    if ck.thorough:
        bad, tot = ck.tlaps("BlockRangesProof", mutate=(
            "        ELSE base + rem\n\nN2", "        ELSE base + rem + 1\n\nN2"))
        if bad == tot:
            raise MachineryFailure("TLAPS proved a defective transcription")
    ck.tlc("BlockRanges", "BlockRanges_defect.cfg", count=False,
           expect_violation="PartitionHere")
    tmp = tempfile.mkdtemp(prefix="c20_")
    try:
        table = os.path.join(tmp, "table.json")
        ck.tlc("BlockRanges", "BlockRanges_table.cfg", count=False,
               env={"TABLE_FILE": table})
        rows = json.load(open(table))["rows"]
        if len(rows) < 100:
            raise MachineryFailure("table too small")

        # ------------------------------------------- tables vs real code (H)
        # rows of equal size and length are adjacent and the configuration
        # objects persist, so consecutive loops differ in `start` only
        rows.sort(key=lambda r: (r["size"], r["stop"] - r["start"],
                                 r["start"]))
        for row in rows:
            size, start, stop = row["size"], row["start"], row["stop"]
            blocks_code = []
            try:
                for rank in range(size):
                    (rng, dc) = with_fake(
                        size, rank,
                        lambda dc: par._calculate_ranges(dc, start, stop),
                        keep=True)
                    blocks_code.append(list(rng))
                    if [list(x) for x in dc.ranges][rank] != list(rng):
                        ck.violation("ranges-table-consistent",
                                     "ranges-attr",
                                     dict(row=row, rank=rank,
                                          ranges=dc.ranges, rng=rng), row)
            except MachineryFailure:
                raise
            except Exception as ex:
                # (no range handed to some rank, a range that is not a pair)
                ck.violation("partition", "no-range:%s" % type(ex).__name__,
                             dict(row=row, rank=len(blocks_code),
                                  exception=repr(ex)[:200]), row)
                continue
            nontriv = (stop - start) > 0 and size > 1
            ck.case("partition", (size, start, stop), nontrivial=nontriv,
                    sample=dict(size=size, start=start, stop=stop,
                                blocks=blocks_code))
            fails = partition_ok(blocks_code, start, stop)
            if fails:
                key = "start!=0" if start != 0 else "start=0"
                ck.violation("partition", key,
                             dict(size=size, start=start, stop=stop,
                                  blocks=blocks_code, fails=fails),
                             dict(kind="ranges", size=size, start=start,
                                  stop=stop))
            elif blocks_code != row["blocks"]:
                ck.model_drift("blocks differ from the specified ones for "
                               "size=%d start=%d stop=%d (still a partition)"
                               % (size, start, stop))
            # public iterators under a declared parallel region
            if start >= 0:
                covered = []
                for rank in range(size):
                    def pub(dc):
                        par.start_parallel_region()
                        try:
                            r = list(par.block_distributed_range(start, stop))
                            lst = list(range(100, 100 + stop - start))
                            l1 = par.block_distributed_list(lst)
                            l2 = par.block_distributed_list(
                                lst, return_index=True)
                            arr = numpy.arange(200, 200 + stop - start)
                            a1 = par.block_distributed_array(arr)
                            a2 = par.block_distributed_array(
                                arr, return_index=True)
                            # arrays with trailing dimensions are shared
                            # along their first axis
                            arr2 = numpy.arange(300, 300 + 3 * (stop - start)
                                                ).reshape(stop - start, 3)
                            b1 = par.block_distributed_array(arr2)
                            b2 = par.block_distributed_array(
                                arr2, return_index=True)
                            b1 = [int(x[0]) for x in b1]
                            b2 = [(int(i), int(x[0])) for i, x in b2]
                        finally:
                            par.close_parallel_region()
                        return r, l1, l2, list(a1), a2, b1, b2
                    out = None
                    with ck.guarded("iterators-cover-once", "iterator",
                                    dict(size=size, start=start, stop=stop,
                                         rank=rank)):
                        (out, dc) = with_fake(size, rank, pub, keep=True)
                    if out is None:
                        break
                    covered.append(out)
                if len(covered) != size:
                    continue
                whole = list(range(start, stop))
                n = stop - start
                cat = lambda k: [x for o in covered for x in o[k]]
                checks = {
                    "range": (cat(0), whole),
                    "list": (cat(1), list(range(100, 100 + n))),
                    "list-indexed": (cat(2), [(i, 100 + i) for i in range(n)]),
                    "array": ([int(x) for x in cat(3)],
                              list(range(200, 200 + n))),
                    "array-indexed": ([(int(i), int(v)) for i, v in cat(4)],
                                      [(i, 200 + i) for i in range(n)]),
                    "array-2d": (cat(5), [300 + 3 * i for i in range(n)]),
                    "array-2d-indexed": (cat(6), [(i, 300 + 3 * i)
                                                   for i in range(n)]),
                }
                for name, (got, want) in checks.items():
                    ck.case("iterators-cover-once", (name, size, start, stop),
                            nontrivial=n > 0 and size > 1)
                    if got != want:
                        ck.violation(
                            "iterators-cover-once", "iterator:" + name,
                            dict(size=size, start=start, stop=stop,
                                 got=got[:40], want=want[:40]),
                            dict(kind="iterator", name=name, size=size,
                                 start=start, stop=stop))

        # ------------------------------- schedules: spec behaviours -> code
        nsim = 2000 if ck.thorough else 300
        pref = os.path.join(tmp, "tr")
        ck.tlc("BlockRanges", cfg, simulate="file=%s,num=%d" % (pref, nsim),
               depth=40, workers=1, seed=ck.seed + 1, count=False)
        behs = tlaparse.load_behaviours(pref)
        if len(behs) < nsim // 2:
            raise MachineryFailure("too few behaviours: %d" % len(behs))
        for beh in behs:
            s0 = beh[0][1]
            size = s0["size"]
            # one configuration object per rank for the whole program
            dcs = [FakeDC(size, rank) for rank in range(size)]

            def iterators(start, stop):
                its = []
                for rank in range(size):
                    old = man.parallel_conf
                    man.parallel_conf = dcs[rank]
                    try:
                        par.start_parallel_region()
                        try:
                            its.append(iter(par.block_distributed_range(
                                start, stop)))
                        finally:
                            par.close_parallel_region()
                    finally:
                        man.parallel_conf = old
                return its
            start, stop = s0["start"], s0["stop"]
            its = iterators(start, stop)
            done = {}
            prev = s0
            bad = None
            steps = []
            program = [(start, stop)]
            for act, st in beh[1:]:
                if act in ("StepAny", "Step"):
                    pos0 = _fun(prev["pos"], 0)
                    pos1 = _fun(st["pos"], 0)
                    r = [k for k in pos1 if pos1[k] != pos0[k]][0]
                    try:
                        idx = next(its[r])
                    except StopIteration:
                        idx = None
                    steps.append((r, idx))
                    if idx != pos0[r]:
                        bad = ("rank %d handled %r where the spec says %d"
                               % (r, idx, pos0[r]))
                        break
                    done[idx] = done.get(idx, 0) + 1
                elif act == "Reduce":
                    left = [list(it) for it in its]
                    if any(left):
                        bad = "iterators not exhausted at Reduce: %r" % left
                        break
                    want = {i: 1 for i in range(start, stop)}
                    if done != want:
                        bad = "work %r != serial %r" % (done, want)
                        break
                elif act == "NewLoop":
                    start, stop = st["start"], st["stop"]
                    program.append((start, stop))
                    its = iterators(start, stop)
                    done = {}
                else:
                    raise MachineryFailure("unknown action %s" % act)
                prev = st
            ck.case("schedule-replay", (size, tuple(program), tuple(steps)),
                    nontrivial=len(beh) > 2,
                    sample=dict(size=size, program=program, steps=steps))
            ck.traces_validated += 1
            if bad:
                ck.violation("reduced-equals-serial", "schedule",
                             dict(size=size, program=program, why=bad),
                             dict(kind="schedule", size=size,
                                  program=program, steps=steps))
    finally:
        shutil.rmtree(tmp, ignore_errors=True)

    # ------------------------------------------------ callers: reduce = serial
    callers(ck, with_fake, StopPass)
    region_programs(ck, numpy, par, man, FakeDC, SPECS)
    collected_data(ck, numpy, par, man, FakeDC)

    ck.assume("MPI itself (mpi4py Reduce/Allreduce) is not exercised; the "
              "fake DistributedConfiguration sums the per-rank partial arrays")
    ck.assume("TLC bound: sizes<=4(6), starts {-2,0,3}(-3..6), lengths<=6(9) "
              "for schedules; table sizes<=8, starts -3..6, lengths<=12")
    ck.extra["exhaustive"] = True
    return ck.finish()


def _fun(v, base):
    """TLC prints functions with domain 1..n as sequences."""
    if isinstance(v, dict):
        return dict(v)
    return {i + 1: x for i, x in enumerate(v)}


def callers(ck, with_fake, StopPass):
    import numpy
    import quantarhei as qr
    from quantarhei.qm import RedfieldRelaxationTensor, RedfieldRateMatrix

    def system(nmol, seed):
        rng = numpy.random.RandomState(seed)
        ta = qr.TimeAxis(0.0, 300, 2.0)
        with qr.energy_units("1/cm"):
            mols = []
            for i in range(nmol):
                m = qr.Molecule([0.0, 12000.0 + 150.0 * rng.rand() * i])
                cf = qr.CorrelationFunction(ta, dict(
                    ftype="OverdampedBrownian", reorg=20.0 + 10 * rng.rand(),
                    cortime=60.0 + 60 * rng.rand(), T=300, matsubara=10))
                m.set_transition_environment((0, 1), cf)
                mols.append(m)
            ag = qr.Aggregate(mols)
            for i in range(nmol):
                for j in range(i + 1, nmol):
                    ag.set_resonance_coupling(i, j, 30.0 + 80 * rng.rand())
        ag.build()
        return ag

    def run_distributed(size, fn):
        """fn() is run once per fake rank; allreduce calls are resolved in
        passes (pass k replays the totals of the first k reductions and
        records the per-rank partial arrays of reduction k+1)."""
        totals = []
        while True:
            outs, parts = [], []
            for rank in range(size):
                box = {}

                def g(dc):
                    box["dc"] = dc
                    return fn()
                try:
                    outs.append(with_fake(size, rank, g, totals)[0])
                except StopPass:
                    parts.append(box["dc"].partial)
            if len(outs) == size:
                return outs
            if len(parts) != size:
                raise MachineryFailure("ranks disagree on allreduce calls")
            totals.append(sum(parts))
            if len(totals) > 8:
                raise MachineryFailure("too many reductions")

    nsys = 3 if ck.thorough else 2
    for k in range(nsys):
        nmol = 3 + k
        ag = system(nmol, ck.seed + k)
        ham = ag.get_Hamiltonian()
        sbi = ag.get_SystemBathInteraction()

        def tensor():
            ham.protect_basis()
            try:
                with qr.eigenbasis_of(ham):
                    rt = RedfieldRelaxationTensor(ham, sbi)
                    return rt._data.copy()
            finally:
                ham.unprotect_basis()

        def rates():
            return RedfieldRateMatrix(ham, sbi).data.copy()

        for name, fn in (("RedfieldRelaxationTensor", tensor),
                         ("RedfieldRateMatrix", rates)):
            serial = fn()
            for size in ([2, 3, 5] if ck.thorough else [2, 3]):
                try:
                    outs = run_distributed(size, fn)
                except StopPass:
                    raise MachineryFailure("unresolved pass")
                for rank, o in enumerate(outs):
                    err = float(numpy.max(numpy.abs(o - serial)))
                    scale = float(numpy.max(numpy.abs(serial))) or 1.0
                    ck.case("caller-reduced-equals-serial",
                            (name, nmol, size, rank),
                            sample=dict(caller=name, nmol=nmol, size=size,
                                        rank=rank, err=err))
                    if err > 1e-12 * scale:
                        ck.violation(
                            "caller-reduced-equals-serial", "caller:" + name,
                            dict(caller=name, nmol=nmol, size=size, rank=rank,
                                 err=err, scale=scale),
                            dict(kind="caller", caller=name, nmol=nmol,
                                 size=size, seed=ck.seed + k))
