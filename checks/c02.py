# -*- coding: utf-8 -*-
"""C02 — propagated density matrices stay valid states and follow the
generator.

S  specs/ShortExp.tla: the short-time expansion loop (terms, refinement,
   storing) over exact Gaussian rationals, generator -i[H,.] + Lindblad
T  TLC: trace and Hermiticity preserved EXACTLY at every stored time and
   inside every step for all instances in the family (3 Hamiltonians x 3
   relaxation operators x 3 initial states x orders 2,4,6 x refinements x
   steps); the exact stored states are exported (378 tables)
H  exact replay: the real ReducedDensityMatrixPropagator (tensor and
   operator form of the Lindblad tensor, with setDtRefinement, also in the
   rotating frame) reproduces the exact rationals to 1e-13;
   sampled: random Hamiltonians / GKSL generators / states / axes / orders /
   refinements / forms / RWA / pure dephasing: unit trace and Hermiticity at
   every stored time, positivity and distance to expm of the independently
   assembled Liouvillian within the derived truncation (+ splitting) bound,
   conservation laws without relaxation, state-vector = density-matrix
   propagation, rotating frame = laboratory frame; propagators are REUSED
   with changed refinement.
"""
import os
import json
import math
import tempfile
import shutil

from harness.common import Check, MachineryFailure


def main():
    ck = Check("C02")
    import numpy
    import scipy.linalg
    import quantarhei as qr
    from quantarhei.qm import (LindbladForm, ReducedDensityMatrixPropagator,
                               StateVectorPropagator)

    rng = numpy.random.RandomState(ck.seed)

    tmp = tempfile.mkdtemp(prefix="c02_")
    try:
        ck.tlc("ShortExp", "ShortExp.cfg", workers=16,
               env={"TABLE_DIR": tmp})
        tables = []
        for f in sorted(os.listdir(tmp)):
            if f.startswith("se_"):
                tables.append(json.load(open(os.path.join(tmp, f))))
    finally:
        shutil.rmtree(tmp, ignore_errors=True)
    if len(tables) < 300:
        raise MachineryFailure("tables missing: %d" % len(tables))

    def cmat(m):
        a = numpy.array(m, dtype=float)
        return a[..., 0] + 1j * a[..., 1]

    import io
    import contextlib

    def run_real(H, K, rho0, order, nref, q0, nt, form, rwa=False):
        ta = qr.TimeAxis(0.0, nt, 1.0 / q0)
        ham = qr.Hamiltonian(data=H.copy())
        if rwa:
            ham.set_rwa([0, 1])
        RT = None
        if K is not None:
            op = qr.qm.Operator(data=K.copy())
            sbi = qr.qm.SystemBathInteraction(sys_operators=[op],
                                              rates=(2.0,))
            RT = LindbladForm(ham, sbi, as_operators=(form == "operators"))
        if RT is not None:
            prop = ReducedDensityMatrixPropagator(ta, ham, RTensor=RT)
        else:
            prop = ReducedDensityMatrixPropagator(ta, ham)
        prop.setDtRefinement(nref)
        r = qr.ReducedDensityMatrix(data=rho0.copy())
        with contextlib.redirect_stdout(io.StringIO()):
            ev = prop.propagate(r, method="short-exp-%d" % order)
        return ev, ham

    # ---------------------------------------------------- exact replay (T -> code)
    by_key = {}
    for row in tables:
        H, K, r0 = cmat(row["h"]), cmat(row["k"]), cmat(row["rho0"]) / \
            row["den0"]
        key = (row["h"] and json.dumps(row["h"]), json.dumps(row["k"]),
               json.dumps(row["rho0"]), row["order"], row["nref"], row["q0"],
               row["nt"])
        by_key[key] = row
    nrep = 0
    for row in tables:
        H, K, r0 = cmat(row["h"]), cmat(row["k"]), cmat(row["rho0"]) / \
            row["den0"]
        exact = [cmat(s["num"]) / s["den"] for s in row["stored"]]
        hasK = bool(numpy.abs(K).max() > 0)
        if numpy.abs(K.imag).max() > 0:
            continue
        forms = ("tensor", "operators") if hasK else ("none",)
        for form in forms:
            rp = dict(kind="exact", H=row["h"], K=row["k"], rho0=row["rho0"],
                      order=row["order"], nref=row["nref"], q0=row["q0"],
                      nt=row["nt"], form=form)
            with ck.guarded("follows-generator", "exact:" + form, rp, rp):
                ev, ham = run_real(H, K.real if hasK else None, r0,
                                   row["order"], row["nref"], row["q0"],
                                   row["nt"], form)
                d = numpy.array(ev.data)
                err = max(float(numpy.abs(d[i] - exact[i]).max())
                          for i in range(len(exact)))
                sc = max(1.0, max(float(numpy.abs(x).max()) for x in exact))
                nrep += 1
                ck.case("exact-replay", (nrep,), nontrivial=True,
                        sample=dict(rp, err=err))
                if err > 1e-13 * sc:
                    # classify: is it a property violation?
                    trd = max(abs(numpy.trace(x) - 1) for x in d)
                    hed = max(float(numpy.abs(x - x.conj().T).max())
                              for x in d)
                    ck.violation("follows-generator",
                                 "exact:order=%d:nref=%d:%s" % (
                                     row["order"], row["nref"], form),
                                 dict(rp, err=err, trace_defect=float(trd),
                                      herm_defect=hed), rp)
        # rotating frame: H with a diagonal is propagated with its diagonal
        # removed; the stored (rotating-frame) states equal the exact table
        # of the Hamiltonian without diagonal
        Hd = H.copy()
        if not hasK and abs(Hd[1, 1]) > 0 and abs(Hd[0, 0]) == 0 and \
                numpy.abs(Hd.imag).max() == 0:
            H0 = Hd.copy()
            H0[1, 1] = 0
            h0 = [[[int(H0[a, b].real), int(H0[a, b].imag)] for b in (0, 1)]
                  for a in (0, 1)]
            k2 = (json.dumps(h0), json.dumps(row["k"]),
                  json.dumps(row["rho0"]), row["order"], row["nref"],
                  row["q0"], row["nt"])
            if k2 in by_key:
                ex2 = [cmat(s["num"]) / s["den"]
                       for s in by_key[k2]["stored"]]
                rp = dict(kind="exact-rwa", H=row["h"], rho0=row["rho0"],
                          order=row["order"], nref=row["nref"],
                          q0=row["q0"], nt=row["nt"])
                with ck.guarded("rwa-frame", "exact", rp, rp):
                    ev, ham = run_real(Hd.real, None, r0, row["order"],
                                       row["nref"], row["q0"], row["nt"],
                                       "none", rwa=True)
                    d = numpy.array(ev.data)
                    err = max(float(numpy.abs(d[i] - ex2[i]).max())
                              for i in range(len(ex2)))
                    ck.case("exact-replay-rwa", (nrep, "rwa"),
                            sample=dict(rp, err=err))
                    if err > 1e-13 or not ev.is_in_rwa:
                        ck.violation("rwa-frame", "exact", dict(
                            rp, err=err, in_rwa=bool(ev.is_in_rwa)), rp)
    ck.traces_validated += nrep

    # --------------------------------------------------------- sampled part
    def liouvillian(H, Ks, rates, gam=None):
        n = H.shape[0]
        I = numpy.eye(n)
        Lm = -1j * (numpy.kron(H, I) - numpy.kron(I, H.T))
        for K, g in zip(Ks, rates):
            KdK = K.conj().T.dot(K)
            Lm = Lm + g * (numpy.kron(K, K.conj()) - 0.5 * numpy.kron(KdK, I)
                           - 0.5 * numpy.kron(I, KdK.T))
        if gam is not None:
            Lm = Lm - numpy.diag(gam.reshape(n * n))
        return Lm

    def tbound(Lm, h, order, ninner):
        g = float(numpy.abs(Lm).sum(axis=0).max())
        local = (g * h) ** (order + 1) / math.factorial(order + 1) * \
            math.exp(g * h)
        T = sum(numpy.linalg.matrix_power(Lm * h, l) / math.factorial(l)
                for l in range(order + 1))
        growth, P = 1.0, numpy.eye(Lm.shape[0])
        for k in range(min(ninner, 400)):
            P = T.dot(P)
            growth = max(growth, float(numpy.abs(P).sum(axis=0).max()))
        return ninner * local * growth, g

    nsamp = 120 if ck.thorough else 24
    for s in range(nsamp):
        n = int(rng.randint(2, 5))
        A = rng.randn(n, n)
        H = (A + A.T) / 2 * 0.05
        H[numpy.arange(n), numpy.arange(n)] += numpy.concatenate(
            [[0.0], 1.0 + 0.02 * rng.randn(n - 1)])     # optical gap
        relax = (s % 3) != 0
        rwa = bool(rng.rand() < 0.5)
        # every fourth sample: a complex Hermitian Hamiltonian
        cplx = (s % 4) == 3
        if cplx:
            Ai = rng.randn(n, n) * 0.05
            H = H + 1j * (Ai - Ai.T) / 2
        blocks = [0, 1]
        if rwa:
            # ground state | excited band, or three / four blocks (ground
            # state | one-exciton band | higher bands)
            if n >= 3 and rng.rand() < 0.6:
                blocks = [0, 1, int(rng.randint(2, n))]
                if n == 4 and blocks[2] == 2 and rng.rand() < 0.5:
                    blocks = [0, 1, 2, 3]
            # the rotating frame is exact only when the blocks are not
            # coupled (as in aggregate Hamiltonians)
            bounds = blocks + [n]
            blk = numpy.zeros(n, dtype=int)
            for b in range(len(blocks)):
                blk[bounds[b]:bounds[b + 1]] = b
            H[blk[:, None] != blk[None, :]] = 0.0
            if len(blocks) > 2:
                # bands are separated by about one optical quantum
                H[numpy.arange(n), numpy.arange(n)] += blk * (blk > 1) * 0.9
        Ks, rates = [], []
        if relax:
            for k in range(int(rng.randint(1, 3))):
                K = numpy.zeros((n, n))
                i, j = rng.randint(n), rng.randint(n)
                K[i, j] = 1.0
                if rng.rand() < 0.4 and not rwa:
                    K[rng.randint(n), rng.randint(n)] = rng.randn()
                Ks.append(K)
                rates.append(float(rng.uniform(0.002, 0.05)))
        order = int(rng.choice([2, 4, 6]))
        pdeph = relax and (s % 2 == 0)
        # every second dephasing sample: Gaussian (time-dependent) pure
        # dephasing; there is no exponential of a constant generator to
        # compare with, the state must stay valid and a refined run must
        # equal the run on the finer axis
        gauss = pdeph and (s % 4 == 2)
        pdtype = "Gaussian" if gauss else "Lorentzian"
        v = rng.randn(n) + 1j * rng.randn(n)
        v /= numpy.linalg.norm(v)
        if rng.rand() < 0.5:
            rho0 = numpy.outer(v, v.conj())
        else:
            B = rng.randn(n, n) + 1j * rng.randn(n, n)
            rho0 = B.dot(B.conj().T)
            rho0 /= numpy.trace(rho0)
        Nt = int(rng.randint(5, 40))
        if rwa:
            # frame energies: the mean diagonal element of every block
            womega = numpy.zeros(n)
            for b in range(len(blocks)):
                sl = slice(bounds[b], bounds[b + 1])
                womega[sl] = H.diagonal().real[sl].mean()
            Heff = H - numpy.diag(womega)
        else:
            Heff = H
        gH = 2 * float(numpy.abs(Heff).sum(axis=0).max()) + sum(
            4 * r * numpy.abs(K).max() ** 2 for K, r in zip(Ks, rates))
        # (a generator that vanishes in the rotating frame, e.g. one state
        # per block, does not limit the step; the frame phases w t must
        # still be representable)
        dt = float(10 ** rng.uniform(-1.3, -0.3)) / max(
            gH, 0.01 * float(numpy.abs(H).max()))
        form = "operators" if (relax and rng.rand() < 0.5) else "tensor"
        gam = None
        if pdeph:
            g0 = rng.uniform(0.001, 0.02, size=(n, n))
            gam = (g0 + g0.T) / 2
            numpy.fill_diagonal(gam, 0.0)
        rp = dict(kind="sampled", seed=ck.seed, sample=s, n=n, order=order,
                  rwa=rwa, relax=relax, form=form, pdeph=pdeph, Nt=Nt, dt=dt,
                  pdeph_type=pdtype if pdeph else None,
                  complex_H=bool(cplx), blocks=blocks if rwa else None)
        with ck.guarded("sampled", "propagate", rp, rp):
            # (the axis need not start at zero)
            # (with the rotating frame the start stays at zero: the frame
            # transformation refers to absolute time)
            t0 = 0.0 if rwa else float((0.0, 3.5, -2.0)[s % 3]) * dt * 4
            ta = qr.TimeAxis(t0, Nt, dt)
            ham = qr.Hamiltonian(data=H.copy())
            if rwa:
                ham.set_rwa(list(blocks))
            kwargs = {}
            if relax:
                ops = [qr.qm.Operator(data=K.copy()) for K in Ks]
                sbi = qr.qm.SystemBathInteraction(sys_operators=ops,
                                                  rates=tuple(rates))
                kwargs["RTensor"] = LindbladForm(
                    ham, sbi, as_operators=(form == "operators"))
            if pdeph:
                kwargs["PDeph"] = qr.qm.PureDephasing(drates=gam.copy(),
                                                      dtype=pdtype)
            prop = ReducedDensityMatrixPropagator(ta, ham, **kwargs)
            Lm = liouvillian(H, Ks, rates, gam)
            # the SAME propagator is used with a sequence of refinements,
            # and the SAME initial-state object is handed to every call
            r = qr.ReducedDensityMatrix(data=rho0.astype(complex).copy())
            for nref in [int(x) for x in rng.permutation([1, 2, 3])[:2]]:
                prop.setDtRefinement(nref)
                with contextlib.redirect_stdout(io.StringIO()):
                    ev = prop.propagate(r, method="short-exp-%d" % order)
                if rwa:
                    ev.convert_from_RWA(ham)
                d = numpy.array(ev.data)
                trd = float(max(abs(numpy.trace(x) - 1) for x in d))
                hed = float(max(numpy.abs(x - x.conj().T).max() for x in d))
                h = dt / nref
                LmR = liouvillian(Heff if rwa else H, Ks, rates, gam)
                bound, g = tbound(LmR, h, order, (Nt - 1) * nref)
                if pdeph:
                    bound += (Nt - 1) * nref * g * float(gam.max()) * h * h
                ref = numpy.array([
                    scipy.linalg.expm(Lm * (t - ta.data[0])).dot(
                        rho0.reshape(n * n)).reshape(n, n)
                    for t in ta.data])
                err = float(numpy.abs(d - ref).max())
                mineig = float(min(numpy.linalg.eigvalsh(
                    (x + x.conj().T) / 2).min() for x in d))
                smp = dict(rp, nref=nref, trace_defect=trd, herm_defect=hed,
                           err=err, bound=bound, min_eig=mineig)
                ck.case("valid-state", (s, nref), sample=smp)
                rpp = dict(rp, nref=nref)
                if trd > 1e-10:
                    ck.violation("unit-trace", "sampled", smp, rpp)
                if hed > 1e-10:
                    ck.violation("hermitian", "sampled", smp, rpp)
                if not gauss:
                    ck.case("follows-generator", (s, nref), sample=smp)
                if (not gauss) and err > 10 * bound + 1e-10:
                    ck.violation("follows-generator",
                                 "sampled:pdeph=%s:relax=%s" % (pdeph, relax),
                                 smp, rpp)
                if relax and (not gauss) and \
                        mineig < -(10 * bound + 1e-10):
                    ck.violation("positive-semidefinite", "sampled", smp, rpp)
                if rwa and not gauss:
                    # laboratory frame -> rotating frame: the result follows
                    # the generator with the frame energies subtracted
                    ev.convert_to_RWA(ham)
                    dR = numpy.array(ev.data)
                    refR = numpy.array([
                        scipy.linalg.expm(LmR * (t - ta.data[0])).dot(
                            rho0.reshape(n * n)).reshape(n, n)
                        for t in ta.data])
                    errR = float(numpy.abs(dR - refR).max())
                    ck.case("to-rotating-frame", (s, nref), sample=dict(
                        rp, nref=nref, err=errR, bound=bound))
                    if errR > 10 * bound + 1e-10 or not ev.is_in_rwa:
                        ck.violation("follows-generator",
                                     "sampled:to-rotating-frame",
                                     dict(smp, err_rwa=errR), rpp)
                if not relax:
                    pur = float(max(abs(numpy.trace(x.dot(x)) -
                                        numpy.trace(rho0.dot(rho0)))
                                    for x in d))
                    en = float(max(abs(numpy.trace(H.dot(x)) -
                                       numpy.trace(H.dot(rho0))) for x in d))
                    ck.case("conservation", (s, nref), sample=dict(
                        rp, purity=pur, energy=en, bound=bound))
                    if pur > 20 * bound + 1e-10 or \
                            en > 20 * bound * (1 + abs(H).max()) + 1e-10:
                        ck.violation("conservation", "sampled", dict(
                            smp, purity=pur, energy=en), rpp)
            # refinement = the same integrator on a finer axis; the refined
            # run is made on a propagator that was already used with another
            # refinement (settings must not be carried over)
            kref = int(rng.choice([2, 3, 5]))
            prop.setDtRefinement(kref)
            with contextlib.redirect_stdout(io.StringIO()):
                evr = prop.propagate(qr.ReducedDensityMatrix(
                    data=rho0.copy()), method="short-exp-%d" % order)
            taf = qr.TimeAxis(t0, (Nt - 1) * kref + 1, dt / kref)
            hamf = qr.Hamiltonian(data=H.copy())
            if rwa:
                hamf.set_rwa(list(blocks))
            kwf = {}
            if relax:
                opsf = [qr.qm.Operator(data=K.copy()) for K in Ks]
                sbif = qr.qm.SystemBathInteraction(sys_operators=opsf,
                                                   rates=tuple(rates))
                kwf["RTensor"] = LindbladForm(
                    hamf, sbif, as_operators=(form == "operators"))
            if pdeph:
                kwf["PDeph"] = qr.qm.PureDephasing(drates=gam.copy(),
                                                   dtype=pdtype)
            propf = ReducedDensityMatrixPropagator(taf, hamf, **kwf)
            with contextlib.redirect_stdout(io.StringIO()):
                evf = propf.propagate(qr.ReducedDensityMatrix(
                    data=rho0.copy()), method="short-exp-%d" % order)
            dr = numpy.array(evr.data)
            df = numpy.array(evf.data)[::kref]
            e = float(numpy.abs(dr - df).max())
            ck.case("refinement-equals-fine-axis", (s, kref), sample=dict(
                rp, kref=kref, err=e))
            if e > 1e-11:
                ck.violation("refinement-equals-fine-axis",
                             "sampled:pdeph=%s" % pdeph,
                             dict(rp, kref=kref, err=e), rp)
            # state vector vs density matrix (no relaxation, pure state)
            if not relax and not rwa and numpy.allclose(
                    rho0, numpy.outer(v, v.conj())):
                hsv = qr.Hamiltonian(data=H.copy())
                svp = StateVectorPropagator(ta, hsv)
                svp.setDtRefinement(2)
                psi = qr.StateVector(data=v.copy())
                pe = svp.propagate(psi)
                pd = numpy.array(pe.data)
                prop2 = ReducedDensityMatrixPropagator(ta, hsv)
                prop2.setDtRefinement(2)
                ev2 = prop2.propagate(qr.ReducedDensityMatrix(
                    data=rho0.copy()))
                d2 = numpy.array(ev2.data)
                b2, _ = tbound(liouvillian(H, [], []), dt / 2, 4,
                               (Nt - 1) * 2)
                e = float(max(numpy.abs(numpy.outer(pd[i], pd[i].conj()) -
                                        d2[i]).max() for i in range(Nt)))
                ck.case("statevector-equals-densitymatrix", s, sample=dict(
                    rp, err=e, bound=b2))
                # the state-vector propagator stores complex64
                if e > 20 * b2 + 5e-6:
                    ck.violation("statevector-equals-densitymatrix",
                                 "sampled", dict(rp, err=e, bound=b2), rp)
                # the library's own conversion of the evolution of the state
                # vector into an evolution of the density matrix
                dme = numpy.array(pe.get_DensityMatrixEvolution().data)
                e3 = float(max(numpy.abs(
                    numpy.outer(pd[i], pd[i].conj()) - dme[i]).max()
                    for i in range(Nt)))
                ck.case("statevector-to-densitymatrix", s,
                        sample=dict(rp, err=e3))
                if e3 > 1e-6:
                    ck.violation("statevector-equals-densitymatrix",
                                 "get_DensityMatrixEvolution",
                                 dict(rp, err=e3), rp)

    ck.assume("exact part: 2-level systems, real Lindblad operators, orders "
              "2/4/6, refinement 1-2, 1-2 stored steps (32-bit integers of "
              "TLC bound the denominators); the loops are dimension generic")
    ck.assume("sampled part: tolerance 10 x (n_inner (g h)^(L+1)/(L+1)! "
              "e^(g h) x growth) + 1e-10, g = induced 1-norm of the "
              "Liouvillian assembled independently; with pure dephasing a "
              "first-order splitting term n g gamma h^2 is added")
    ck.assume("the state-vector propagator stores complex64: its agreement "
              "is asserted to 5e-6 + bound")
    return ck.finish()
