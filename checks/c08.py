# -*- coding: utf-8 -*-
"""C08 — evolution superoperator is an identity-started semigroup matching
propagation.

S  specs/EvolSuperOp.tla (mode / now / save / dense-step bookkeeping; a
   stored slice is the k-th power of the one-step map computed with n dense
   sub-steps)
T  TLC over all interleavings of set_dense_dt / calculate / calculate_next
   (save or not) in the bound: identity at zero, step by step = power of one
   map, powers add, refused calls change nothing; -simulate behaviours
H  behaviours replayed on real EvolutionSuperOperators (Lindblad and
   Redfield generators): `now` and every stored slice compared with the
   specified power of the numerically extracted one-step map;
   sampled numeric clauses: U(0) = 1 exactly, semigroup on the grid,
   trace / Hermiticity preservation of U(t), apply(t, rho) = direct
   propagation, incremental = all at once, dense refinement within the
   truncation bound (distance to expm).
"""
import os
import math
import tempfile
import shutil
import io
import contextlib

from harness.common import Check, MachineryFailure
from harness import tlaparse
from harness import tensors as T


def main():
    ck = Check("C08")
    import numpy
    import scipy.linalg
    import quantarhei as qr
    from quantarhei.qm import (LindbladForm, ReducedDensityMatrixPropagator)

    rng = numpy.random.RandomState(ck.seed)
    res = ck.tlc("EvolSuperOp", "EvolSuperOp_large.cfg" if ck.thorough
                 else "EvolSuperOp.cfg", coverage=True, workers=8)
    for act in ("SetDense", "Calculate", "CalculateNext"):
        if res["coverage"].get(act, (0, 0))[1] == 0:
            raise MachineryFailure("vacuous: action %s never taken" % act)

    def lindblad_system(n):
        A = rng.randn(n, n)
        H = (A + A.T) / 2 * 0.05
        if rng.rand() < 0.5:
            # complex Hermitian
            Ai = rng.randn(n, n) * 0.05
            H = H + 1j * (Ai - Ai.T) / 2
        ham = qr.Hamiltonian(data=H)
        ops, rates, Ks = [], [], []
        for k in range(2):
            K = numpy.zeros((n, n))
            K[rng.randint(n), rng.randint(n)] = 1.0
            Ks.append(K)
            ops.append(qr.qm.Operator(data=K.copy()))
            rates.append(float(rng.uniform(0.002, 0.03)))
        sbi = qr.qm.SystemBathInteraction(sys_operators=ops,
                                          rates=tuple(rates))
        return ham, LindbladForm(ham, sbi), H, Ks, rates

    def tpow(U, k):
        n = U.shape[0]
        P = numpy.einsum('ac,bd->abcd', numpy.eye(n), numpy.eye(n)).astype(
            complex)
        for i in range(k):
            P = numpy.tensordot(U, P)
        return P

    def quiet(fn, *a, **kw):
        with contextlib.redirect_stdout(io.StringIO()):
            return fn(*a, **kw)

    # ------------------------------------------------ behaviours -> real code
    NT = 4
    tmp = tempfile.mkdtemp(prefix="c08_")
    try:
        nsim = 600 if ck.thorough else 120
        pref = os.path.join(tmp, "tr")
        ck.tlc("EvolSuperOp", "EvolSuperOp.cfg",
               simulate="file=%s,num=%d" % (pref, nsim), depth=8, workers=1,
               seed=ck.seed + 2, count=False)
        behs = tlaparse.load_behaviours(pref)
    finally:
        shutil.rmtree(tmp, ignore_errors=True)
    if len(behs) < nsim // 2:
        raise MachineryFailure("too few behaviours")
    ham, RT, H, Ks, rates = lindblad_system(3)
    time = qr.TimeAxis(0.0, NT, 5.0)
    Uref = {}
    for n in (1, 2, 3):
        e = qr.qm.EvolutionSuperOperator(time, ham=ham, relt=RT)
        e.set_dense_dt(n)
        quiet(e.calculate)
        Uref[n] = numpy.array(e.data[1])
    ndrift = 0
    for bi, beh in enumerate(behs):
        mode = beh[0][1]["mode"]
        eso = qr.qm.EvolutionSuperOperator(time, ham=ham, relt=RT, mode=mode)
        hist = [["mode", mode]]
        bad = None
        for act, st in beh[1:]:
            a = st["_args"]
            before = (numpy.array(eso.data).copy(), eso.now)
            ok = True
            try:
                if act == "SetDense":
                    eso.set_dense_dt(a[0])
                    hist.append(["set_dense", a[0]])
                elif act == "Calculate":
                    hist.append(["calculate"])
                    quiet(eso.calculate)
                elif act == "CalculateNext":
                    hist.append(["calculate_next", bool(a[0])])
                    quiet(eso.calculate_next, save=bool(a[0]))
                else:
                    raise MachineryFailure("unknown action " + act)
            except MachineryFailure:
                raise
            except Exception as ex:
                ok = False
                hist[-1].append("raised:" + type(ex).__name__)
                d = numpy.array(eso.data)
                if d.shape != before[0].shape or not numpy.array_equal(
                        d, before[0]) or eso.now != before[1]:
                    bad = ("refused-changes-nothing", "state changed by a "
                           "refused call")
                    break
            want_ok = st["last"] == "ok"
            if ok != want_ok:
                ndrift += 1
                if ndrift <= 3:
                    ck.model_drift("acceptance differs from the spec: %r" %
                                   (hist,))
                break
            if not ok:
                continue
            # projection: now and the stored slices
            if eso.now != st["now"] and mode == "jit":
                bad = ("incremental-steps", "now=%d, specified %d" % (
                    eso.now, st["now"]))
                break
            d = numpy.array(eso.data)
            if mode == "all" or st["saving"]:
                for i, (k, n) in enumerate(st["arr"]):
                    if k < 0:
                        continue
                    want = tpow(Uref[n], k) if k > 0 else tpow(Uref[1], 0)
                    if d.ndim != 5 or numpy.abs(d[i] - want).max() > 1e-12:
                        bad = ("stored-slice-is-power",
                               "slice %d is not (U_%d)^%d" % (i, n, k))
                        break
            else:
                k, n = st["cur"]
                want = tpow(Uref[n], k) if k > 0 else tpow(Uref[1], 0)
                if d.ndim != 4 or numpy.abs(d - want).max() > 1e-12:
                    bad = ("stored-slice-is-power",
                           "jit value is not (U_%d)^%d" % (n, k))
            if bad:
                break
        ck.case("behaviour-replay", (bi, str(hist)),
                nontrivial=len(hist) > 2, sample=dict(history=hist))
        ck.traces_validated += 1
        if bad:
            ck.violation(bad[0], "replay", dict(history=hist, why=bad[1]),
                         dict(history=hist))

    # ------------------------------------------------------- numeric clauses
    nsys = 8 if ck.thorough else 3
    for s in range(nsys):
        n = int(rng.randint(2, 4))
        kind = "lindblad" if s % 2 == 0 else "redfield"
        rp = dict(kind="numeric", seed=ck.seed, system=s, gen=kind)
        with ck.guarded("numeric", kind, rp, rp):
            if kind == "lindblad":
                ham, RT, H, Ks, rates = lindblad_system(n)
                hamp = ham
                tfine = None
            else:
                ag, tab = T.build_aggregate(qr, rng, n, Nt=200, dt=1.0)
                RT, ham = ag.get_RelaxationTensor(
                    tab, relaxation_theory="standard_Redfield")
                hamp = ham
            # every third system: pure dephasing (Lorentzian, symmetric
            # rates) given to the superoperator and to the propagator
            pd_eso, pd_prop = {}, {}
            if s % 3 == 2:
                g0 = numpy.random.RandomState(ck.seed + 77 + s).uniform(
                    0.001, 0.01, size=(ham.dim, ham.dim))
                gam = (g0 + g0.T) / 2
                numpy.fill_diagonal(gam, 0.0)
                pdo = qr.qm.PureDephasing(drates=gam, dtype="Lorentzian")
                pd_eso, pd_prop = dict(pdeph=pdo), dict(PDeph=pdo)
            rp["pure_dephasing"] = bool(pd_eso)
            Nt = int(rng.randint(4, 8))
            # steps and numbers of dense sub-steps whose quotient is not
            # exactly representable (0.9 / 7, 4.5 / 14, 1.7 / 13 ...)
            dt = float((2.0, 0.9, 5.0, 4.5, 1.7)[s % 5])
            rng.rand()
            # the grid need not start at zero
            t0 = float((0.0, 50.0, -20.0, 7.5)[s % 4])
            time = qr.TimeAxis(t0, Nt, dt)
            rp["t0"] = t0
            dim = ham.dim
            esos = {}
            for dn in (1, 2, 4, 7, 13):
                e = qr.qm.EvolutionSuperOperator(time, ham=ham, relt=RT, **pd_eso)
                e.set_dense_dt(dn)
                quiet(e.calculate)
                esos[dn] = numpy.array(e.data)
            U = esos[2]
            Id = tpow(U[1], 0)
            ck.case("identity-at-zero", s)
            if not numpy.array_equal(U[0], Id):
                ck.violation("identity-at-zero", kind, rp, rp)
            worst = 0.0
            for i in range(Nt):
                for j in range(Nt - i):
                    worst = max(worst, float(numpy.abs(
                        U[i + j] - numpy.tensordot(U[i], U[j])).max()))
            ck.case("semigroup", s, sample=dict(rp, err=worst))
            if worst > 1e-10:
                ck.violation("semigroup", kind, dict(rp, err=worst), rp)
            trd = float(max(numpy.abs(numpy.einsum('aacd->cd', U[i]) -
                                      numpy.eye(dim)).max()
                            for i in range(Nt)))
            hed = float(max(numpy.abs(numpy.conj(U[i]) -
                                      U[i].transpose(1, 0, 3, 2)).max()
                            for i in range(Nt)))
            ck.case("trace-hermiticity", s, sample=dict(rp, trace=trd,
                                                        herm=hed))
            if trd > 1e-10:
                ck.violation("trace-preserving", kind, dict(rp, err=trd), rp)
            if hed > 1e-10:
                ck.violation("hermiticity-preserving", kind,
                             dict(rp, err=hed), rp)
            # apply = direct propagation with the same integrator
            v = rng.randn(dim) + 1j * rng.randn(dim)
            v /= numpy.linalg.norm(v)
            rho0 = numpy.outer(v, v.conj())
            # (also with 7 dense sub-steps against a propagator refined 7x)
            p7 = ReducedDensityMatrixPropagator(time, hamp, RTensor=RT,
                                                  **pd_prop)
            p7.setDtRefinement(7)
            d7 = numpy.array(quiet(p7.propagate, qr.ReducedDensityMatrix(
                data=rho0.copy())).data)
            a7 = numpy.einsum('tabcd,cd->tab', esos[7], rho0)
            e7 = float(numpy.abs(a7 - d7).max())
            ck.case("apply-equals-propagation", (s, "dense7"),
                    sample=dict(rp, dense=7, err=e7))
            if e7 > 1e-10:
                ck.violation("apply-equals-propagation", kind + ":dense=7",
                             dict(rp, dense=7, err=e7), rp)
            e2 = qr.qm.EvolutionSuperOperator(time, ham=ham, relt=RT, **pd_eso)
            e2.set_dense_dt(2)
            quiet(e2.calculate)
            prop = ReducedDensityMatrixPropagator(time, hamp, RTensor=RT,
                                                  **pd_prop)
            prop.setDtRefinement(2)
            ev = quiet(prop.propagate, qr.ReducedDensityMatrix(
                data=rho0.copy()))
            dd = numpy.array(ev.data)
            worst = 0.0
            for i, t in enumerate(time.data):
                r = e2.apply(float(t), qr.ReducedDensityMatrix(
                    data=rho0.copy()))
                worst = max(worst, float(numpy.abs(numpy.array(r.data) -
                                                   dd[i]).max()))
                # the superoperator read at a grid point is the stored slice
                ua = numpy.array(quiet(e2.at, float(t)).data)
                if numpy.abs(ua - numpy.array(e2.data[i])).max() > 0:
                    ck.violation("at-is-stored-slice", kind,
                                 dict(rp, index=i, t=float(t)), rp)
            ck.case("at-is-stored-slice", s, nontrivial=t0 != 0.0)
            allat = quiet(e2.apply, time, qr.ReducedDensityMatrix(
                data=rho0.copy()))
            worst = max(worst, float(numpy.abs(numpy.array(allat.data) -
                                               dd).max()))
            ck.case("apply-equals-propagation", s, sample=dict(rp, err=worst))
            if worst > 1e-10:
                ck.violation("apply-equals-propagation", kind,
                             dict(rp, err=worst), rp)
            # calculated inside the eigenbasis of the Hamiltonian (as the
            # library's own examples do) and used outside = calculated
            # outside
            # (not with pure dephasing: its rates are not basis managed,
            # they act on the elements of the basis in use)
            ec = qr.qm.EvolutionSuperOperator(time, ham=ham, relt=RT)
            ec.set_dense_dt(2)
            if not pd_eso:
                with qr.eigenbasis_of(ham):
                    quiet(ec.calculate)
                worst = float(numpy.abs(numpy.array(ec.data) - U).max())
                ck.case("calculated-in-eigenbasis", s,
                        sample=dict(rp, err=worst))
            if not pd_eso and worst > 1e-9:
                ck.violation("apply-equals-propagation",
                             kind + ":calculated-in-eigenbasis",
                             dict(rp, err=worst), rp)
            # incremental = all at once
            for save in (False, True):
                ej = qr.qm.EvolutionSuperOperator(time, ham=ham, relt=RT, **pd_eso,
                                                  mode="jit")
                ej.set_dense_dt(2)
                worst = 0.0
                for k in range(1, Nt):
                    quiet(ej.calculate_next, save=save)
                    got = numpy.array(ej.data[k] if save else ej.data)
                    worst = max(worst, float(numpy.abs(got - U[k]).max()))
                ck.case("incremental-equals-all-at-once", (s, save),
                        sample=dict(rp, save=save, err=worst))
                if worst > 1e-12:
                    ck.violation("incremental-equals-all-at-once", kind,
                                 dict(rp, save=save, err=worst), rp)
            # dense refinement: every setting within its truncation bound of
            # the exact exponential (Lindblad: Liouvillian assembled here)
            if kind == "lindblad":
                I = numpy.eye(dim)
                Lm = -1j * (numpy.kron(H, I) - numpy.kron(I, H.T))
                for K, g in zip(Ks, rates):
                    KdK = K.T.dot(K)
                    Lm = Lm + g * (numpy.kron(K, K) - 0.5 * numpy.kron(KdK, I)
                                   - 0.5 * numpy.kron(I, KdK.T))
                if pd_eso:
                    Lm = Lm - numpy.diag(gam.reshape(dim * dim))
                gg = float(numpy.abs(Lm).sum(axis=0).max())
                for dn in (1, 2, 4, 7, 13):
                    h = dt / dn
                    Tm = sum(numpy.linalg.matrix_power(Lm * h, l) /
                             math.factorial(l) for l in range(5))
                    growth, P = 1.0, numpy.eye(dim * dim)
                    for k in range((Nt - 1) * dn):
                        P = Tm.dot(P)
                        growth = max(growth, float(
                            numpy.abs(P).sum(axis=0).max()))
                    bound = (Nt - 1) * dn * (gg * h) ** 5 / 120.0 * \
                        math.exp(gg * h) * growth
                    if pd_eso:
                        # dephasing is applied as a factor after every
                        # elemental step (first-order splitting)
                        bound += (Nt - 1) * dn * gg * float(gam.max()) * h * h
                    worst = 0.0
                    for i, t in enumerate(time.data):
                        # (elapsed time since the first grid point)
                        E = scipy.linalg.expm(Lm * (t - time.data[0])
                                              ).reshape(dim, dim, dim, dim)
                        worst = max(worst, float(numpy.abs(esos[dn][i] -
                                                           E).max()))
                    ck.case("dense-refinement", (s, dn), sample=dict(
                        rp, dense=dn, err=worst, bound=bound))
                    if worst > 10 * bound + 1e-11:
                        ck.violation("dense-refinement", kind,
                                     dict(rp, dense=dn, err=worst,
                                          bound=bound), rp)

    # ------------- a long grid on which the dynamics approaches its limit
    # fast dephasing, slow population transfer: late on the grid every
    # element changes by less than 1e-5 of its size per step, and still the
    # stored superoperator composes on the grid and reproduces propagation
    for li in range(2 if ck.thorough else 1):
        NtL, dtL, NdL = 1500, 1.0, 10
        hh = numpy.diag([0.0, 1.0, 1.3 + 0.1 * li])
        hamL = qr.Hamiltonian(data=hh)
        opsL, ratesL = [], []
        for nq in range(3):
            kk = numpy.zeros((3, 3))
            kk[nq, nq] = 1.0
            opsL.append(qr.qm.Operator(data=kk))
            ratesL.append(2.0)
        for (nq, mq, rq) in ((1, 2, 0.006), (2, 1, 0.002 + 0.001 * li)):
            kk = numpy.zeros((3, 3))
            kk[nq, mq] = 1.0
            opsL.append(qr.qm.Operator(data=kk))
            ratesL.append(rq)
        sbiL = qr.qm.SystemBathInteraction(opsL, rates=ratesL)
        rtL = LindbladForm(hamL, sbiL, as_operators=False)
        timeL = qr.TimeAxis(0.0, NtL, dtL)
        rp = dict(kind="long-grid", Nt=NtL, dt=dtL, dense=NdL, variant=li)
        with ck.guarded("numeric", "long-grid", rp, rp):
            eL = qr.qm.EvolutionSuperOperator(timeL, ham=hamL, relt=rtL)
            eL.set_dense_dt(NdL)
            quiet(eL.calculate)
            UL = numpy.array(eL.data)
            worst = 0.0
            for (i, j) in ((NtL // 2 - 1, NtL // 2), (NtL - 2, 1),
                           (NtL // 3, NtL // 3), (1000, 400), (700, 700)):
                worst = max(worst, float(numpy.abs(
                    UL[i + j] - numpy.tensordot(UL[i], UL[j])).max()))
            ck.case("semigroup", ("long", li), sample=dict(rp, err=worst))
            if worst > 1e-9:
                ck.violation("semigroup", "long-grid", dict(rp, err=worst),
                             rp)
            v = numpy.array([0.2, 0.7, 0.3 + 0.6j])
            v = v / numpy.linalg.norm(v)
            rho0 = numpy.outer(v, v.conj())
            pL = ReducedDensityMatrixPropagator(timeL, hamL, RTensor=rtL)
            pL.setDtRefinement(NdL)
            dd = numpy.array(quiet(pL.propagate, qr.ReducedDensityMatrix(
                data=rho0.copy())).data)
            aa = numpy.einsum('tabcd,cd->tab', UL, rho0)
            e = float(numpy.abs(aa - dd).max())
            ck.case("apply-equals-propagation", ("long", li),
                    sample=dict(rp, err=e))
            if e > 1e-9:
                ck.violation("apply-equals-propagation", "long-grid",
                             dict(rp, err=e), rp)

    ck.assume("time-independent generators only (the property's scope); "
              "TLC bound Nt = 4, dense <= 2, <= 6 calls")
    ck.assume("mixing save=True and save=False in one incremental "
              "calculation is refused by numpy's shape checks; modelled as a "
              "refusal")
    ck.assume("dense-refinement bound: n (g h)^5/5! e^(g h) x max_k |T^k| "
              "with g the induced 1-norm of the Liouvillian and T the 4th "
              "order Taylor polynomial (reference)")
    return ck.finish()
