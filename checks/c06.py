# -*- coding: utf-8 -*-
"""C06 — rates and bath functions obey detailed balance and conserve
probability.

S  specs/RedfieldRates.tla: branch selection (downhill value C(w), uphill
   value C(w) exp(-w/kT)), product with the interaction matrix elements,
   symbolic rates [w, up, coef]
T  TLC over all eigen-energy patterns (ties included) and all symmetric
   interaction matrices with entries -1/0/1 for 3 states: the code's branch
   is the definition, rates non-negative, structural detailed balance,
   ground state isolated when it does not couple
H  instrumented inputs: the real RedfieldRateMatrix is run on a stub
   system-bath interaction whose Fourier-transformed correlation function
   logs the frequencies it is evaluated at and returns coded values; the
   logged frequencies and the resulting matrix must be the specified ones.
   Sampled numeric clauses on random aggregates: signs, column sums, ground
   state isolation, detailed balance (Redfield exact, Foerster within the
   step-halving estimate of the quadrature error, relative to E_n - lambda_n), golden-rule value of the
   downhill rates from the rate matrix and from the tensor, oddness of
   spectral densities and C(-w) = exp(-w/kT) C(w), also when one spectral
   density object is evaluated at several temperatures.
"""
import math
import itertools

from harness.common import Check, MachineryFailure
from harness import tensors as T
from harness import registry as R


def main():
    ck = Check("C06")
    import numpy
    import quantarhei as qr
    from quantarhei.qm import RedfieldRateMatrix
    from quantarhei.qm.liouvillespace.rates.foersterrates import \
        FoersterRateMatrix
    from quantarhei.qm.liouvillespace.systembathinteraction import \
        SystemBathInteraction
    from quantarhei.core.units import kB_intK, kB_int

    rng = numpy.random.RandomState(ck.seed)
    ck.tlc("RedfieldRates", "RedfieldRates.cfg", workers=16)

    # ------------------------------------------------- instrumented binding
    Temp = 300.0

    class FakeFT:
        def __init__(self, k, log):
            self.k, self.log = k, log

        def at(self, w, approx="spline"):
            self.log.append((self.k, float(w)))
            return 10.0 + self.k + float(w) / 8.0      # coded C_k(w) > 0

    class FakeCF:
        def __init__(self, k, log):
            self.k, self.log = k, log
            self.temperature = Temp

        def get_Fourier_transform(self):
            return FakeFT(self.k, self.log)

    class FakeCC:
        def __init__(self, log):
            self.log = log

        def get_correlation_function(self, i, j):
            return FakeCF(i, self.log)

    def spec_rates(en_sorted, kis):
        """RedfieldRates.tla evaluated with the coded C_k and real Boltzmann
        factors; also the frequencies at which C must be evaluated"""
        n = len(en_sorted)
        K = numpy.zeros((n, n))
        freqs = set()
        for i in range(n):
            for j in range(n):
                if i == j:
                    continue
                up = en_sorted[i] > en_sorted[j]
                w = abs(en_sorted[i] - en_sorted[j])
                val = 0.0
                for k, ki in enumerate(kis):
                    c = 10.0 + k + w / 8.0
                    if up:
                        c *= math.exp(-w / (kB_intK * Temp))
                    val += c * ki[i, j] * ki[j, i]
                    freqs.add((k, float(w)))
                K[i, j] = max(val, 0.0)
        for j in range(n):
            K[j, j] = -sum(K[i, j] for i in range(n) if i != j)
        return K, freqs

    levels = [0.0, 0.02, 0.03, 0.07]
    patterns = [p for p in itertools.product(levels, repeat=3)]
    syms = []
    for vals in itertools.product((-1.0, 0.0, 1.0), repeat=6):
        m = numpy.zeros((3, 3))
        m[0, 0], m[1, 1], m[2, 2], m[0, 1], m[0, 2], m[1, 2] = vals
        m[1, 0], m[2, 0], m[2, 1] = m[0, 1], m[0, 2], m[1, 2]
        syms.append(m)
    nstub = 0
    for pi, en in enumerate(patterns):
        if len(set(en)) < 3:
            continue            # eigenvectors of degenerate levels are not
                                # unique: the permutation below is undefined
        choose = [syms[(7 * pi + 13 * q) % len(syms)] for q in range(3)]
        for ki in choose:
            kis = [ki, numpy.roll(numpy.roll(ki, 1, 0), 1, 1)]
            log = []
            sbi = object.__new__(SystemBathInteraction)
            sbi.N = 2
            sbi.KK = numpy.array(kis)
            sbi.CC = FakeCC(log)
            ham = qr.Hamiltonian(data=numpy.diag(en))
            rp = dict(kind="stub", energies=list(en), ki=ki.tolist())
            with ck.guarded("branch-selection", "stub", rp, rp):
                RRm = RedfieldRateMatrix(ham, sbi)
                got = numpy.array(RRm.data)
                order = numpy.argsort(en, kind="stable")
                en_s = [en[o] for o in order]
                kis_s = [k[numpy.ix_(order, order)] for k in kis]
                want, freqs = spec_rates(en_s, kis_s)
                nstub += 1
                ck.case("branch-selection", (en, ki.tobytes()), sample=dict(
                    rp, rates=got.tolist()))
                used = {(k, round(w, 12)) for (k, w) in log}
                need = {(k, round(w, 12)) for (k, w) in freqs}
                if numpy.abs(got - want).max() > 1e-12:
                    # which clause of the property is hit?
                    cs = float(numpy.abs(got.sum(axis=0)).max())
                    ck.violation("redfield-rate-structure", "stub",
                                 dict(rp, got=got.tolist(),
                                      want=want.tolist(), colsum=cs), rp)
                elif not used <= need or any(w < 0 for (k, w) in log):
                    ck.model_drift("correlation function evaluated at "
                                   "frequencies other than the specified "
                                   "ones: %r" % sorted(used - need)[:4])
    ck.traces_validated += nstub

    # -------------------------------------------------------- sampled systems
    def Jw(w, lam, tau):
        # overdamped Brownian spectral density, internal units
        return 2.0 * lam * w * (1.0 / tau) / (w * w + (1.0 / tau) ** 2)

    nsys = 10 if ck.thorough else 5
    for s in range(nsys):
        Nm = int(rng.randint(2, 5))
        reorg = rng.uniform(15, 60, size=Nm)
        cort = rng.uniform(40, 120, size=Nm)
        Temp2 = float(rng.uniform(80, 350))
        en = 12000.0 + rng.uniform(-200, 200, size=Nm)
        if s % 4 == 1:
            # one far-detuned pigment: slow rates (below 1e-6 1/fs) whose
            # ratios still obey detailed balance
            en[-1] += 900.0
        dtb = 1.0
        Ntb = 3000
        Jcm = {(i, j): float(rng.uniform(-90, 90))
               for i in range(Nm) for j in range(i + 1, Nm)}

        composite = (s % 4 == 2)
        # baths handed over as sampled values (ftype "Value-defined"): the
        # sites declare the same reorganisation energy and temperature but
        # their functions differ (different correlation times)
        valuedef = (s % 4 == 3)
        if valuedef:
            reorg[:] = reorg[0]
        # bath functions that were already used for another aggregate's
        # rates and were then extended in place (cf += second component)
        extended = (s % 5 == 4)

        def build_ag(nt, dt):
            tax = qr.TimeAxis(0.0, nt, dt)
            with qr.energy_units("1/cm"):
                mols = []
                for i in range(Nm):
                    m = qr.Molecule([0.0, float(en[i])])
                    if composite:
                        # a bath built from a list of components (overdamped
                        # + underdamped); total reorganisation energy reorg[i]
                        prm = [dict(ftype="OverdampedBrownian",
                                    reorg=0.6 * float(reorg[i]),
                                    cortime=float(cort[i]), T=Temp2,
                                    matsubara=100),
                               dict(ftype="UnderdampedBrownian",
                                    reorg=0.4 * float(reorg[i]),
                                    freq=300.0 + 40.0 * i,
                                    # (gamma is an energy parameter)
                                    gamma=(1.0 / float(cort[i])) / R.CM2INT,
                                    T=Temp2)]
                    else:
                        prm = dict(ftype="OverdampedBrownian",
                                   reorg=float(reorg[i]),
                                   cortime=float(cort[i]), T=Temp2,
                                   matsubara=100)
                    if extended:
                        prm = dict(ftype="OverdampedBrownian",
                                   reorg=0.6 * float(reorg[i]),
                                   cortime=float(cort[i]), T=Temp2,
                                   matsubara=100)
                    cfx = qr.CorrelationFunction(tax, prm)
                    if extended:
                        m0 = qr.Molecule([0.0, float(en[i])])
                        m0.set_transition_environment((0, 1), cfx)
                        m1 = qr.Molecule([0.0, float(en[i]) + 150.0])
                        m1.set_transition_environment((0, 1), cfx)
                        a0 = qr.Aggregate([m0, m1])
                        a0.set_resonance_coupling(0, 1, 50.0)
                        a0.build()
                        RedfieldRateMatrix(a0.get_Hamiltonian(),
                                           a0.get_SystemBathInteraction())
                        cfx += qr.CorrelationFunction(tax, dict(
                            ftype="OverdampedBrownian",
                            reorg=0.4 * float(reorg[i]),
                            cortime=0.5 * float(cort[i]), T=Temp2,
                            matsubara=100))
                    if valuedef:
                        cfx = qr.CorrelationFunction(
                            tax, dict(ftype="Value-defined",
                                      reorg=float(reorg[i]), T=Temp2),
                            values=numpy.array(cfx.data, dtype=complex))
                    m.set_transition_environment((0, 1), cfx)
                    mols.append(m)
                agx = qr.Aggregate(mols)
                for (i, j), v in Jcm.items():
                    agx.set_resonance_coupling(i, j, v)
            agx.build()
            return agx, tax
        ag, ta = build_ag(Ntb, dtb)
        # the same system with the bath sampled twice as finely: the
        # difference estimates the discretisation error of the library's
        # Fourier-transformed correlation function (2-3 % at 400 1/cm for a
        # 1 fs step), which is what limits the comparison with the analytic
        # spectral density
        ag_f, ta_f = build_ag(2 * Ntb, dtb / 2)
        ham = ag.get_Hamiltonian()
        sbi = ag.get_SystemBathInteraction()
        rp = dict(kind="aggregate", seed=ck.seed, system=s, N=Nm, T=Temp2,
                  composite_bath=bool(composite),
                  value_defined_bath=bool(valuedef),
                  bath_extended_in_place=bool(extended))
        with ck.guarded("redfield-rates", "aggregate", rp, rp):
            RRm = RedfieldRateMatrix(ham, sbi)
            K = numpy.array(RRm.data)
            hD, SS = numpy.linalg.eigh(numpy.array(ham._data))
            n = K.shape[0]
            off = K - numpy.diag(numpy.diag(K))
            ck.case("non-negative", s)
            if off.min() < 0:
                ck.violation("non-negative", "redfield", dict(
                    rp, min=float(off.min())), rp)
            cs = float(numpy.abs(K.sum(axis=0)).max())
            ck.case("column-sums", s, sample=dict(rp, colsum=cs))
            if cs > 1e-12 * max(1.0, numpy.abs(K).max()):
                ck.violation("column-sums", "redfield", dict(rp, err=cs), rp)
            if numpy.abs(K[0, :]).max() > 0 or numpy.abs(K[:, 0]).max() > 0:
                ck.violation("ground-state-isolated", "redfield", rp, rp)
            worst = 0.0
            for a in range(1, n):
                for b in range(1, n):
                    if a != b and K[b, a] > 1e-14 and hD[a] > hD[b]:
                        ratio = K[a, b] / K[b, a]
                        want = math.exp(-(hD[a] - hD[b]) / (kB_intK * Temp2))
                        worst = max(worst, abs(ratio - want) / want)
            ck.case("detailed-balance", s, sample=dict(rp, err=worst))
            if worst > 1e-9:
                ck.violation("detailed-balance", "redfield",
                             dict(rp, err=worst), rp)
            # golden rule for downhill rates (rate matrix and tensor)
            RT, HH = ag.get_RelaxationTensor(
                ta, relaxation_theory="standard_Redfield")
            with qr.eigenbasis_of(ham):
                Rt = numpy.array(RT.data)
            K_f = numpy.array(RedfieldRateMatrix(
                ag_f.get_Hamiltonian(),
                ag_f.get_SystemBathInteraction()).data)
            RT_f, HH_f = ag_f.get_RelaxationTensor(
                ta_f, relaxation_theory="standard_Redfield")
            with qr.eigenbasis_of(ag_f.get_Hamiltonian()):
                Rt_f = numpy.array(RT_f.data)
            worst_m, worst_t = 0.0, 0.0     # error / tolerance
            raw_m = raw_t = 0.0
            for a in range(1, n):
                for b in range(1, n):
                    if hD[b] - hD[a] > 2e-3 and not composite:   # a <- b
                        w = hD[b] - hD[a]
                        val = 0.0
                        for site in range(Nm):
                            lam = reorg[site] * R.CM2INT
                            val += (SS[site + 1, a] ** 2 * SS[site + 1, b] ** 2
                                    * (1.0 + 1.0 / math.tanh(
                                        w / (2 * kB_int * Temp2)))
                                    * (Jw(w, lam, cort[site])
                                       if not extended else
                                       Jw(w, 0.6 * lam, cort[site]) +
                                       Jw(w, 0.4 * lam, 0.5 * cort[site])))
                        # tolerance: 3 x the step-halving estimate (the
                        # error falls by ~3 when the step is halved, so the
                        # estimate is ~2/3 of the error) + 2e-3
                        em = abs(K[a, b] - val) / val
                        tm = 3.0 * abs(K[a, b] - K_f[a, b]) / val + 2e-3
                        rt = numpy.real(Rt[a, a, b, b])
                        et = abs(rt - val) / val
                        tt = 3.0 * abs(rt - numpy.real(
                            Rt_f[a, a, b, b])) / val + 2e-3
                        worst_m = max(worst_m, em / tm)
                        worst_t = max(worst_t, et / tt)
                        raw_m, raw_t = max(raw_m, em), max(raw_t, et)
            ck.case("golden-rule", s, sample=dict(
                rp, matrix_err=raw_m, tensor_err=raw_t,
                matrix_err_over_tol=worst_m, tensor_err_over_tol=worst_t))
            if worst_m > 1.0:
                ck.violation("golden-rule", "rate-matrix",
                             dict(rp, err=raw_m, err_over_tol=worst_m), rp)
            if worst_t > 1.0:
                ck.violation("golden-rule", "tensor",
                             dict(rp, err=raw_t, err_over_tol=worst_t), rp)
        # a cut-off TIME means the same interval of integration on every
        # grid: tensors cut at the same time on the 1 fs and on the 0.5 fs
        # grid agree within the discretisation error estimated above
        if not composite and not valuedef:
            from quantarhei.qm import RedfieldRelaxationTensor
            tcut = 3.0 * float(numpy.max(cort))
            with ck.guarded("golden-rule", "cutoff-time", rp, rp):
                Rc = []
                for agc in (ag, ag_f):
                    hc = agc.get_Hamiltonian()
                    hc.protect_basis()
                    try:
                        with qr.eigenbasis_of(hc):
                            RTc = RedfieldRelaxationTensor(
                                hc, agc.get_SystemBathInteraction(),
                                cutoff_time=tcut)
                            Rc.append(numpy.array(RTc.data))
                    finally:
                        hc.unprotect_basis()
                worst_c = raw_c = 0.0
                for a in range(1, n):
                    for b in range(1, n):
                        if hD[b] - hD[a] > 2e-3:
                            r1 = float(numpy.real(Rc[0][a, a, b, b]))
                            r2 = float(numpy.real(Rc[1][a, a, b, b]))
                            ref = abs(float(numpy.real(Rt_f[a, a, b, b])))
                            tol = 3.0 * abs(float(numpy.real(
                                Rt[a, a, b, b] - Rt_f[a, a, b, b]))) \
                                + 1e-2 * ref
                            raw_c = max(raw_c, abs(r1 - r2) / ref)
                            worst_c = max(worst_c, abs(r1 - r2) / tol)
                ck.case("cutoff-time-grid-independent", s, sample=dict(
                    rp, cutoff=tcut, err=raw_c, err_over_tol=worst_c))
                if raw_c == 0.0:
                    raise MachineryFailure("cut-off clause compared nothing")
                if worst_c > 1.0:
                    ck.violation("golden-rule", "cutoff-time:grid-dependent",
                                 dict(rp, cutoff=tcut, err=raw_c,
                                      err_over_tol=worst_c), rp)
        # Foerster rates
        with ck.guarded("foerster-rates", "aggregate", rp, rp):
            KF = numpy.array(FoersterRateMatrix(ham, sbi).data)
            cs = float(numpy.abs(KF.sum(axis=0)).max())
            ck.case("foerster-column-sums", s)
            if cs > 1e-12 * max(1.0, numpy.abs(KF).max()):
                ck.violation("column-sums", "foerster", dict(rp, err=cs), rp)
            Hs = numpy.array(ham._data)
            # quadrature error of the overlap integrals: the same rates with
            # the bath sampled twice as finely (the small uphill rate carries
            # the larger relative error)
            KF_f = numpy.array(FoersterRateMatrix(
                ag_f.get_Hamiltonian(),
                ag_f.get_SystemBathInteraction()).data)
            worst, raw = 0.0, 0.0
            for a in range(1, Nm + 1):
                for b in range(1, Nm + 1):
                    if a < b and KF[a, b] > 1e-12 and KF[b, a] > 1e-12:
                        ea = Hs[a, a] - reorg[a - 1] * R.CM2INT
                        eb = Hs[b, b] - reorg[b - 1] * R.CM2INT
                        ratio = KF[a, b] / KF[b, a]
                        want = math.exp(-(ea - eb) / (kB_intK * Temp2))
                        e = abs(ratio - want) / want
                        tol = 3.0 * (abs(KF[a, b] - KF_f[a, b]) / KF[a, b] +
                                     abs(KF[b, a] - KF_f[b, a]) / KF[b, a]
                                     ) + 2e-3
                        worst = max(worst, e / tol)
                        raw = max(raw, e)
            ck.case("foerster-detailed-balance", s, sample=dict(
                rp, err=raw, err_over_tol=worst))
            if worst > 1.0:
                ck.violation("detailed-balance", "foerster",
                             dict(rp, err=raw, err_over_tol=worst), rp)

    # ------------------------------------------ spectral densities and C(w)
    for s in range(8 if ck.thorough else 3):
        lam = float(rng.uniform(10, 80))
        tau = float(rng.uniform(40, 150))
        ta = qr.TimeAxis(0.0, 1000, 1.0)
        for withT in (False, True, "underdamped", "Underdamped", "B777",
                      "CP29"):
            rp = dict(kind="spectral-density", reorg=lam, cortime=tau,
                      T_in_params=withT)
            with ck.guarded("spectral-density", "sd", rp, rp):
                p = dict(ftype="OverdampedBrownian", reorg=lam, cortime=tau)
                if withT in ("Underdamped", "B777", "CP29"):
                    # the other analytic bath models of the library
                    p = dict(ftype=withT, reorg=lam)
                    if withT == "Underdamped":
                        p.update(freq=float(rng.uniform(150, 500)),
                                 gamma=(1.0 / tau))
                    elif withT == "B777":
                        p.update(alternative_form=True)
                    withT = False
                elif withT == "underdamped":
                    # another bath model: detailed balance does not depend
                    # on the shape of the spectral density
                    p = dict(ftype="UnderdampedBrownian", reorg=lam,
                             freq=float(rng.uniform(150, 500)),
                             gamma=(1.0 / tau) / R.CM2INT)
                    withT = False
                if withT:
                    p["T"] = 300.0
                import io
                import contextlib
                with qr.energy_units("1/cm"), contextlib.redirect_stdout(
                        io.StringIO()):
                    sd = qr.SpectralDensity(ta, p)
                w = numpy.array(sd.axis.data)
                d = numpy.real(numpy.array(sd.data))
                n = len(w)
                odd = float(numpy.abs(d[1:] + d[1:][::-1]).max()) / float(
                    numpy.abs(d).max())
                ck.case("spectral-density-odd", (s, withT, p["ftype"]))
                if odd > (1e-8 if p["ftype"] == "OverdampedBrownian"
                          else 1e-6):
                    ck.violation("spectral-density-odd", "sd",
                                 dict(rp, err=odd), rp)
                # the SAME object evaluated at a sequence of temperatures
                for Tq in (300.0, 77.0, 150.0):
                    ft = sd.get_FTCorrelationFunction(temperature=Tq)
                    c = numpy.real(numpy.array(ft.data))
                    pos = w > 1e-4
                    cpos = c[pos]
                    cneg = c[::-1][pos[::-1]][::-1] if False else None
                    # index of -w for every w > 0 (axis symmetric about 0
                    # except for its first point)
                    worst = 0.0
                    for i in numpy.where(pos)[0][::25]:
                        j = int(numpy.argmin(numpy.abs(w + w[i])))
                        if abs(w[j] + w[i]) > 1e-9:
                            continue
                        x = w[i] / (kB_int * Tq)
                        if x > 10:
                            continue      # 1 - coth loses all digits there
                        want = math.exp(-x) * c[i]
                        worst = max(worst, abs(c[j] - want) / abs(want))
                    ck.case("ft-detailed-balance", (s, withT, Tq, p["ftype"]),
                            sample=dict(rp, T=Tq, err=worst))
                    if worst > 1e-9:
                        ck.violation("ft-detailed-balance",
                                     "sd:T_in_params=%s" % withT,
                                     dict(rp, T=Tq, err=worst), rp)
                    cf = sd.get_CorrelationFunction(temperature=Tq)
                    if abs(cf.get_temperature() - Tq) > 1e-12:
                        ck.violation("ft-detailed-balance",
                                     "sd:cf-temperature",
                                     dict(rp, T=Tq,
                                          got=float(cf.get_temperature())),
                                     rp)

                # a correlation function requested at a temperature other
                # than the one used last is the one a fresh object gives
                with qr.energy_units("1/cm"), contextlib.redirect_stdout(
                        io.StringIO()):
                    sd_f = qr.SpectralDensity(ta, dict(p))
                Tn = 200.0
                cf_u = sd.get_CorrelationFunction(temperature=Tn)
                cf_f = sd_f.get_CorrelationFunction(temperature=Tn)
                du = numpy.array(cf_u.data)
                df = numpy.array(cf_f.data)
                e = float(numpy.abs(du - df).max()) / max(
                    float(numpy.abs(df).max()), 1e-300)
                ck.case("cf-at-requested-temperature", (s, str(withT),
                                                        p["ftype"]),
                        sample=dict(rp, T=Tn, err=e))
                if e > 1e-12 or abs(cf_u.get_temperature() - Tn) > 1e-12:
                    ck.violation("ft-detailed-balance",
                                 "sd:cf-at-requested-temperature",
                                 dict(rp, T=Tn, err=e,
                                      got=float(cf_u.get_temperature())), rp)

    ck.assume("stub binding uses non-degenerate eigen-energies (eigenvectors "
              "of degenerate levels are not unique); TLC covers ties")
    ck.assume("golden-rule values use the analytic overdamped-Brownian "
              "spectral density J(w) = 2 lam w gamma/(w^2+gamma^2) and "
              "CODATA kB; tolerance 2e-2 covers the finite Matsubara sum, "
              "the finite time axis and the spline half-Fourier transform "
              "(bath axis 3000 fs, 100 Matsubara terms); Foerster balance "
              "5e-2 (numerical integration)")
    return ck.finish()
