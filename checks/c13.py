# -*- coding: utf-8 -*-
"""C13 — Fourier transforms and time/frequency axes are mutually inverse.

S  specs/FourierAxes.tla: numpy's fftshift/ifftshift/fft/ifft as index maps
   on roots of unity, the code's pipelines as compositions, the defining sums
T  TLC: Pipeline = DefiningSum for every delta position, values 1 and i,
   lengths 1..10 (16), complete and upper-half, forward and inverse; axis
   round trips; the variant with fftshift on the input (repaired in /repo)
   must be rejected.  JSON table of landing phases per length.
H  real DFunction / TimeAxis / FrequencyAxis on the same delta inputs
   compared with the table (roots of unity, 1e-13) and with the direct sum
   computed by the reference; random complex data; axis round trips for
   random starts/steps; transform-then-inverse returns the original values.
"""
import os
import json
import cmath
import math
import tempfile
import shutil

from harness.common import Check, MachineryFailure


def main():
    ck = Check("C13")
    import numpy
    import quantarhei as qr
    from quantarhei import TimeAxis, FrequencyAxis, DFunction

    rng = numpy.random.RandomState(ck.seed)
    cfg = "FourierAxes_large.cfg" if ck.thorough else "FourierAxes.cfg"
    maxn = 16 if ck.thorough else 10
    tmp = tempfile.mkdtemp(prefix="c13_")
    try:
        ck.tlc("FourierAxes", cfg, workers=16, env={"TABLE_DIR": tmp})
        ck.tlc("FourierAxes", "FourierAxes_defect.cfg", count=False,
               expect_violation="ForwardAndInverseAreDefiningSums")
        tables = {}
        for f in os.listdir(tmp):
            if f.startswith("ft_"):
                row = json.load(open(os.path.join(tmp, f)))
                tables[row["n"]] = row
    finally:
        shutil.rmtree(tmp, ignore_errors=True)
    if sorted(tables) != list(range(1, maxn + 1)):
        raise MachineryFailure("tables missing: %r" % sorted(tables))

    def dsum(x, y, w, sign):
        return numpy.array([numpy.sum(y * numpy.exp(sign * 1j * ww * x))
                            for ww in w])

    def report(clause, key, detail, rp):
        ck.violation(clause, key, detail, rp)

    # --------------------------- complete axes: tables and direct sums
    for N in range(2, maxn + 1):
        row = tables[N]
        ck.traces_validated += 1
        Q = row["q"]
        for dt in (1.0, 0.37):
            ta = TimeAxis(-(N // 2) * dt, N, dt, atype="complete")
            fa = FrequencyAxis(-(N // 2) * dt, N, dt, atype="complete")
            for n0 in range(N):
                for val in (1.0, 1j):
                    y = numpy.zeros(N, dtype=complex)
                    y[n0] = val
                    rp = dict(kind="delta-complete", N=N, n0=n0, dt=dt,
                              val=[val.real, val.imag])
                    # forward, time -> frequency
                    with ck.guarded("fourier-sum", "complete", rp, rp):
                        F = DFunction(ta, y.copy()).get_Fourier_transform()
                        want_tab = numpy.array([cmath.exp(
                            2j * math.pi * e / Q) for e in row["fwd"][n0]]) \
                            * val * dt
                        # the specified conjugate grid
                        wgrid = (numpy.arange(N) - N // 2) * (
                            2 * math.pi / (N * dt))
                        ea = float(numpy.abs(F.axis.data - wgrid).max())
                        if F.axis.length != N or ea > 1e-11 * max(
                                1.0, numpy.abs(wgrid).max()):
                            report("conjugate-axis", "complete:%s" % (
                                "odd" if N % 2 else "even"),
                                dict(rp, axis=F.axis.data.tolist(),
                                     want=wgrid.tolist()), rp)
                        want_sum = dsum(ta.data, y, F.axis.data, +1) * dt
                        e1 = float(numpy.abs(F.data - want_sum).max())
                        e2 = float(numpy.abs(want_tab - dsum(
                            ta.data, y, wgrid, +1) * dt).max())
                        ck.case("fourier-sum", ("fc", N, n0, dt, val),
                                nontrivial=N > 1,
                                sample=dict(rp, err=e1))
                        if e2 > 1e-12 * dt:
                            raise MachineryFailure(
                                "reference direct sum != TLC table for N=%d "
                                "n0=%d (%g)" % (N, n0, e2))
                        if e1 > 1e-12 * dt:
                            report("fourier-sum",
                                   "complete:%s" % ("odd" if N % 2 else
                                                    "even"),
                                   dict(rp, err=e1, direction="time->freq"),
                                   rp)
                    # forward from a frequency axis, and both inverses
                    with ck.guarded("fourier-sum", "complete-freq", rp, rp):
                        G = DFunction(fa, y.copy()).get_Fourier_transform()
                        want = dsum(fa.data, y, G.axis.data, +1) * \
                            fa.step / (2 * math.pi)
                        e = float(numpy.abs(G.data - want).max())
                        ck.case("fourier-sum", ("ff", N, n0, dt, val),
                                nontrivial=N > 1)
                        if e > 1e-12:
                            report("fourier-sum", "complete-freq:%s" % (
                                "odd" if N % 2 else "even"),
                                dict(rp, err=e, direction="freq->time"), rp)
                        Gi = DFunction(fa, y.copy()
                                       ).get_inverse_Fourier_transform()
                        want = dsum(fa.data, y, Gi.axis.data, -1) * \
                            fa.step / (2 * math.pi)
                        want_tab = numpy.array([cmath.exp(
                            2j * math.pi * e / Q) for e in row["inv"][n0]]) \
                            * val * fa.step / (2 * math.pi)
                        tgrid = (numpy.arange(N) - N // 2) * (
                            2 * math.pi / (N * fa.step))
                        if numpy.abs(Gi.axis.data - tgrid).max() > 1e-11 * \
                                max(1.0, numpy.abs(tgrid).max()):
                            report("conjugate-axis", "complete-freq:%s" % (
                                "odd" if N % 2 else "even"),
                                dict(rp, axis=Gi.axis.data.tolist(),
                                     want=tgrid.tolist()), rp)
                        if numpy.abs(want_tab - dsum(fa.data, y, tgrid, -1) *
                                     fa.step / (2 * math.pi)).max() > 1e-12:
                            raise MachineryFailure("inverse table mismatch")
                        e = float(numpy.abs(Gi.data - want).max())
                        ck.case("inverse-sum", ("if", N, n0, dt, val),
                                nontrivial=N > 1)
                        if e > 1e-12:
                            report("inverse-sum", "complete-freq:%s" % (
                                "odd" if N % 2 else "even"),
                                dict(rp, err=e, direction="inverse"), rp)

    # ------------------------------------------ upper-half: deltas and random
    for Nt in range(2, maxn + 1):
        for dt in (1.0, 0.5):
            ta = TimeAxis(0.0, Nt, dt)
            cases = []
            for n0 in range(Nt):
                for val in ((1.0, 1j) if n0 > 0 else (1.0,)):
                    y = numpy.zeros(Nt, dtype=complex)
                    y[n0] = val
                    cases.append(("delta", n0, y))
            for r in range(2):
                y = rng.randn(Nt) + 1j * rng.randn(Nt)
                y[0] = y[0].real          # Hermitian-extendable
                cases.append(("random", r, y))
            for kind, n0, y in cases:
                rp = dict(kind=kind + "-upper", Nt=Nt, n0=n0, dt=dt,
                          y=[[z.real, z.imag] for z in y])
                with ck.guarded("fourier-sum", "upper-half", rp, rp):
                    # the data may reach the function at construction, by
                    # assignment, or by modifying a real function in place
                    how = ("constructed", "assigned", "apply_to_data")[
                        (n0 + Nt + len(kind)) % 3]
                    rp["data_arrive"] = how
                    if how == "constructed":
                        fobj = DFunction(ta, y.copy())
                    elif how == "assigned":
                        fobj = DFunction(ta, numpy.ones(Nt))
                        fobj.data = y.copy()
                    else:
                        fobj = DFunction(ta, numpy.ones(Nt))
                        fobj.apply_to_data(lambda dd: dd * y)
                    F = fobj.get_Fourier_transform()
                    w = F.axis.data
                    # Hermitian extension f(-t) = conj f(t)
                    tt = numpy.concatenate([ta.data, -ta.data[1:]])
                    yy = numpy.concatenate([y, numpy.conj(y[1:])])
                    want = dsum(tt, yy, w, +1) * dt
                    sc = max(1.0, float(numpy.abs(want).max()))
                    e = float(numpy.abs(F.data - want).max()) / sc
                    ck.case("fourier-sum", ("up", Nt, kind, n0, dt),
                            nontrivial=Nt > 1, sample=dict(
                                kind=kind, Nt=Nt, n0=n0, dt=dt, err=e))
                    if len(w) != 2 * Nt:
                        report("fourier-sum", "upper-half:axis-length",
                               dict(rp, got=len(w)), rp)
                    elif e > 1e-12:
                        report("fourier-sum", "upper-half", dict(rp, err=e),
                               rp)
                    # transform and inverse-transform
                    f2 = F.get_inverse_Fourier_transform()
                    e = float(numpy.abs(f2.data - y).max()) / max(
                        1.0, float(numpy.abs(y).max()))
                    ea = float(numpy.abs(f2.axis.data - ta.data).max())
                    ck.case("round-trip", ("up", Nt, kind, n0, dt),
                            nontrivial=Nt > 1)
                    if e > 1e-12 or ea > 1e-12 or f2.axis.length != Nt:
                        report("round-trip", "upper-half",
                               dict(rp, err=e, axis_err=ea), rp)

    # ------------------------------- complete: random data and round trips
    for N in range(2, maxn + 1):
        for r in range(3):
            dt = float(rng.uniform(0.1, 3.0))
            ta = TimeAxis(-(N // 2) * dt, N, dt, atype="complete")
            y = rng.randn(N) + 1j * rng.randn(N)
            # the data in the representations a user may hand in: complex,
            # real float, integer-valued (int dtype); plain lists are
            # refused by the constructor
            # ... and values as small as they are in internal units, or
            # nearly (not exactly) real
            form = ("complex", "real", "int", "tiny", "small-imag")[
                (N + r) % 5]
            if form == "tiny":
                y = y * 1e-9
                yin = y.copy()
            elif form == "small-imag":
                y = numpy.real(y) + 1e-7j * numpy.imag(y)
                yin = y.copy()
            elif form == "real":
                y = numpy.real(y)
                yin = y.copy()
            elif form == "int":
                y = numpy.round(3 * numpy.real(y))
                yin = y.astype(int)
            else:
                yin = y.copy()
            y = numpy.asarray(y, dtype=complex)
            rp = dict(kind="random-complete", N=N, dt=dt, data_form=form,
                      y=[[z.real, z.imag] for z in y])
            with ck.guarded("round-trip", "complete", rp, rp):
                F = DFunction(ta, yin).get_Fourier_transform()
                want = dsum(ta.data, y, F.axis.data, +1) * dt
                # (errors are measured relative to the size of the data)
                sc = float(numpy.abs(want).max()) if form in (
                    "tiny", "small-imag") else max(
                    1.0, float(numpy.abs(want).max()))
                e = float(numpy.abs(F.data - want).max()) / sc
                ck.case("fourier-sum", ("rc", N, r), nontrivial=N > 1)
                if e > 1e-12:
                    report("fourier-sum", "complete:%s" % (
                        "odd" if N % 2 else "even"), dict(rp, err=e), rp)
                f2 = F.get_inverse_Fourier_transform()
                e = float(numpy.abs(f2.data - y).max()) / (
                    float(numpy.abs(y).max()) if form in (
                        "tiny", "small-imag") else max(
                        1.0, float(numpy.abs(y).max())))
                ea = float(numpy.abs(f2.axis.data - ta.data).max())
                ck.case("round-trip", ("rc", N, r), nontrivial=N > 1,
                        sample=dict(N=N, dt=dt, err=e, axis_err=ea))
                if e > 1e-12 or ea > 1e-12 * max(1.0, N * dt):
                    report("round-trip", "complete:%s" % (
                        "odd" if N % 2 else "even"),
                        dict(rp, err=e, axis_err=ea), rp)

    # ---------------------------------------------------- axis round trips
    nax = 400 if ck.thorough else 80
    for r in range(nax):
        N = int(rng.randint(2, 40))
        dt = float(rng.uniform(0.05, 5.0))
        if r % 5 == 4:
            dt = -dt            # descending axes are axes too
        start = float(rng.uniform(-20, 20)) if rng.rand() < 0.7 else 0.0
        # frequency axes need not be centred at zero, and the mappings are
        # also requested while an energy-units context is active
        fstart = float(rng.uniform(0.3, 3.0)) if r % 3 == 1 else 0.0
        units = ("int", "1/cm", "eV", "int")[r % 4]
        for atype in ("complete", "upper-half"):
            rp = dict(kind="axis", N=N, dt=dt, start=start, atype=atype,
                      frequency_start=fstart, units=units)
            with ck.guarded("axis-round-trip", atype, rp, rp), \
                    qr.energy_units(units):
                ta = TimeAxis(start, N, dt, atype=atype,
                              frequency_start=fstart)
                # every third axis goes through the public shift_to_zero()
                # first; whatever it does, the axis stays a grid that starts
                # at its declared start and survives the round trip
                if r % 3 == 2:
                    ta.shift_to_zero()
                    rp = dict(rp, shifted=True)
                grid = ta.start + numpy.arange(N) * ta.step
                if ta.length != N or numpy.abs(
                        numpy.asarray(ta.data) - grid).max() > 1e-11 * max(
                            1.0, abs(start) + N * abs(dt)):
                    report("axis-round-trip", "axis-is-its-own-grid:" + atype,
                           dict(rp, start_attr=float(ta.start),
                                first=float(ta.data[0])), rp)
                fa = ta.get_FrequencyAxis()
                tb = fa.get_TimeAxis()
                sc = max(1.0, abs(start) + N * abs(dt))
                ok = (tb.length == N and tb.atype == atype and
                      abs(tb.step - dt) < 1e-12 * abs(dt) and
                      numpy.abs(tb.data - ta.data).max() < 1e-11 * sc)
                ck.case("axis-round-trip", ("t", r, atype), nontrivial=N > 1,
                        sample=rp)
                if not ok:
                    report("axis-round-trip", "time->freq->time:" + atype,
                           dict(rp, got_start=float(tb.data[0]),
                                got_len=int(tb.length),
                                got_step=float(tb.step)), rp)
                # and from the frequency side
                fb = tb.get_FrequencyAxis()
                ok = (fb.length == fa.length and
                      numpy.abs(fb.data - fa.data).max() <
                      1e-11 * max(1.0, numpy.abs(fa.data).max()))
                ck.case("axis-round-trip", ("f", r, atype), nontrivial=N > 1)
                if not ok:
                    report("axis-round-trip", "freq->time->freq:" + atype,
                           rp, rp)

    ck.assume("TLC bound: lengths 1..10 (16), every delta position, values "
              "1 and i; linearity of the numpy pipeline extends the result "
              "to all data of those lengths")
    ck.assume("transforms of complete axes are claimed for axes centred at "
              "zero (as the property states) and of upper-half axes for "
              "start 0; axis round trips for arbitrary starts")
    ck.assume("axes of length 1 have no conjugate grid (the step of the "
              "derived axis is undefined; get_FrequencyAxis raises) and are "
              "excluded from the binding; TLC covers N = 1 trivially")
    ck.extra["exhaustive"] = False
    return ck.finish()
