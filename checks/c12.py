# -*- coding: utf-8 -*-
"""C12 — third-order response: exact orientational average, additivity,
symmetry.

S  specs/Orientational.tla (+ generated Icosahedral.tla: the 60 icosahedral
   rotations in exact (1/2)Z[phi] arithmetic, a 5-design on SO(3))
T  TLC: F4e.M4.F4n equals the exact orientational average of the product of
   the four field-dipole projections on all 3^8 tuples of Cartesian basis
   vectors, hence (8-fold multilinearity) for all real polarisations and
   dipoles; group validated by ASSUMEs; negative control (M4 diagonal 3/30)
H  the real LabSetup + liouville_pathway.build/orientational_averaging on the
   same 6561 tuples against the specified integers; on random real vectors
   against the icosahedral average evaluated in floating point;
   sampled responses (uncoupled and coupled dimers / trimers with
   two-exciton states through MockTwoDResponseCalculator): prefactor of
   every generated pathway, total = rephasing + non-rephasing, invariance
   under common rotation of dipoles / polarisations, fourth-power scaling,
   additivity for uncoupled molecules (cross peaks cancel).
"""
import itertools
import math
import types

from harness.common import Check, MachineryFailure


def main():
    ck = Check("C12")
    import numpy
    import quantarhei as qr
    from quantarhei.spectroscopy.diagramatics import liouville_pathway
    from quantarhei.spectroscopy.mocktwodcalculator import \
        MockTwoDResponseCalculator

    rng = numpy.random.RandomState(ck.seed)

    ck.tlc("Orientational", "Orientational.cfg", workers=16)
    ck.tlc("Orientational", "Orientational_defect.cfg", count=False,
           expect_violation="PrefactorIsExactAverage")

    # the icosahedral group in floating point (same generators as the spec)
    phi = (1 + math.sqrt(5)) / 2
    A = numpy.diag([-1.0, -1.0, 1.0])
    B = numpy.array([[0, 0, 1.0], [1, 0, 0], [0, 1, 0]])
    C = 0.5 * numpy.array([[1, -phi, 1 / phi], [phi, 1 / phi, -1],
                           [1 / phi, 1, phi]])
    group = [numpy.eye(3)]
    frontier = [numpy.eye(3)]
    while frontier:
        new = []
        for g in frontier:
            for h in (A, B, C):
                p = g.dot(h)
                if not any(numpy.abs(p - q).max() < 1e-9 for q in group):
                    group.append(p)
                    new.append(p)
        frontier = new
    if len(group) != 60:
        raise MachineryFailure("float icosahedral group has %d elements" %
                               len(group))

    def exact_avg(es, ds):
        tot = 0.0
        for g in group:
            v = 1.0
            for k in range(4):
                v *= numpy.dot(es[k], g.dot(ds[k]))
            tot += v
        return tot / 60.0

    def pref30_spec(e, d):
        def F4(v):
            dl = lambda a, b: 1 if a == b else 0
            return [dl(v[3], v[2]) * dl(v[1], v[0]),
                    dl(v[3], v[1]) * dl(v[2], v[0]),
                    dl(v[3], v[0]) * dl(v[2], v[1])]
        fe, fn = F4(e), F4(d)
        M = [[4, -1, -1], [-1, 4, -1], [-1, -1, 4]]
        return sum(fe[i] * M[i][j] * fn[j] for i in range(3)
                   for j in range(3))

    fake_agg = types.SimpleNamespace(rho0=numpy.array([[1.0]]))
    basis = numpy.eye(3)

    def code_pref(es, ds, sides=(1, 1, 1, 1)):
        lab = qr.LabSetup()
        lab.set_pulse_polarizations(pulse_polarizations=(es[0], es[1], es[2]),
                                    detection_polarization=es[3])
        lp = liouville_pathway("R", 0, aggregate=fake_agg, order=3)
        for k in range(4):
            lp.dmoments[k, :] = ds[k]
            lp.sides[k] = sides[k]
        lp.transitions[0, 1] = 0
        lp.evolfac = 1.0
        lp.build()
        lp.orientational_averaging(lab)
        return float(lp.pref)

    # ------------------------ all 3^8 basis tuples vs the specified integers
    nb = 0
    for e in itertools.product(range(3), repeat=4):
        for d in itertools.product(range(3), repeat=4):
            want = pref30_spec(e, d) / 30.0
            rp = dict(kind="basis-tuple", e=list(e), d=list(d))
            got = code_pref([basis[i] for i in e], [basis[i] for i in d])
            nb += 1
            ck.case("prefactor-basis", (e, d), nontrivial=want != 0)
            if abs(got - want) > 1e-14:
                ck.violation("prefactor-is-exact-average", "basis-tuple",
                             dict(rp, got=got, want=want), rp)
    ck.traces_validated += nb
    # random real vectors and signs of the sides
    for s in range(400 if ck.thorough else 60):
        es = [rng.randn(3) for k in range(4)]
        ds = [rng.randn(3) * 2 for k in range(4)]
        sides = [int(x) for x in rng.choice([-1, 1], size=4)]
        want = numpy.prod(sides) * exact_avg(es, ds)
        got = code_pref(es, ds, sides)
        sc = max(1.0, abs(want))
        rp = dict(kind="random-vectors", e=[v.tolist() for v in es],
                  d=[v.tolist() for v in ds], sides=sides)
        ck.case("prefactor-random", s, sample=dict(rp, got=got, want=want))
        if abs(got - want) > 1e-11 * sc:
            ck.violation("prefactor-is-exact-average", "random-vectors",
                         dict(rp, got=got, want=want), rp)

    # ----------------------------------------------------- response clauses
    X = numpy.array([1.0, 0.0, 0.0])
    Y = numpy.array([0.0, 1.0, 0.0])

    def respond(energies, dipoles, widths, pols, det, coupling=None, t2=0.0):
        mols = []
        with qr.energy_units("1/cm"):
            for en, wd in zip(energies, widths):
                mol = qr.Molecule([0.0, en])
                mol.set_transition_width((0, 1), wd)
                mols.append(mol)
        for mol, dd in zip(mols, dipoles):
            mol.set_dipole(0, 1, list(dd))
        agg = qr.Aggregate(molecules=mols)
        if coupling:
            with qr.energy_units("1/cm"):
                for (i, j), JJ in coupling.items():
                    agg.set_resonance_coupling(i, j, JJ)
        t1a = qr.TimeAxis(0.0, 40, 10.0)
        t2a = qr.TimeAxis(0.0, 5, 10.0)
        t3a = qr.TimeAxis(0.0, 40, 10.0)
        calc = MockTwoDResponseCalculator(t1a, t2a, t3a)
        with qr.energy_units("1/cm"):
            calc.bootstrap(rwa=12100.0, shape="Gaussian")
        agg1 = agg.deepcopy()
        agg1.build(mult=1)
        ham = agg1.get_Hamiltonian()
        with qr.eigenbasis_of(ham):
            op = qr.qm.ProjectionOperator(0, 0, dim=ham.dim)
        sbi = qr.qm.SystemBathInteraction([op], rates=(0.0,))
        lform = qr.qm.LindbladForm(ham, sbi)
        eUt = qr.EvolutionSuperOperator(t2a, ham, relt=lform)
        eUt.set_dense_dt(10)
        eUt.calculate()
        agg.build(mult=2)
        agg.diagonalize()
        lab = qr.LabSetup()
        lab.set_pulse_polarizations(pulse_polarizations=pols,
                                    detection_polarization=det)
        pws = dict()
        resp = calc.calculate_one_system(t2, agg, eUt, lab, pways=pws)
        out = {}
        for name, dt in (("reph", qr.signal_REPH), ("nonr", qr.signal_NONR),
                         ("totl", qr.signal_TOTL)):
            out[name] = numpy.array(resp.get_TwoDSpectrum(dtype=dt).data)
        # the views are read again in another order (total first, twice):
        # reading must not change what is stored
        again = {}
        for name, dt in (("totl", qr.signal_TOTL), ("reph", qr.signal_REPH),
                         ("totl2", qr.signal_TOTL), ("nonr", qr.signal_NONR)):
            again[name] = numpy.array(resp.get_TwoDSpectrum(dtype=dt).data)
        last_again[0] = again
        return out, pws[str(t2)], agg

    last_again = [None]

    def unitv():
        v = rng.randn(3)
        return v / numpy.linalg.norm(v)

    def rot():
        q, _ = numpy.linalg.qr(rng.randn(3, 3))
        if numpy.linalg.det(q) < 0:
            q[:, 0] *= -1
        return q

    cases = [
        ([12000., 12300.], [120., 120.], None, 0.0, ((X, X, X), X)),
        ([12000., 12300.], [100., 180.], None, 0.0, ((X, X, Y), Y)),
        ([12000., 12300.], [100., 180.], None, 20.0, None),
        ([12000., 12250., 12400.], [100., 160., 220.], None, 0.0, None),
        ([12000., 12300.], [100., 180.], {(0, 1): 80.0}, 10.0, None),
    ]
    # the same uncoupled trimer listed in orders that are not energy sorted
    # (a cyclic order is not its own inverse permutation)
    cases += [
        ([12250., 12400., 12000.], [160., 220., 100.], None, 0.0, None),
        ([12400., 12000., 12250.], [220., 100., 160.], None, 10.0, None),
    ]
    if ck.thorough:
        cases += [
            ([12000., 12250., 12400.], [90., 140., 200.], None, 30.0, None),
            ([12000., 12250., 12400.], [90., 140., 200.],
             {(0, 1): 60.0, (1, 2): -40.0}, 10.0, None),
            ([11900., 12300.], [150., 80.], None, 40.0, ((X, Y, Y), X)),
        ]
    import io
    import contextlib
    for ci, (ens, wds, cpl, t2, pol) in enumerate(cases):
        nm = len(ens)
        dips = [rng.randn(3) for k in range(nm)]
        pols, det = pol if pol else ((unitv(), unitv(), unitv()), unitv())
        rp = dict(kind="response", case=ci, energies=ens, widths=wds,
                  coupling=str(cpl), t2=t2,
                  dipoles=[d.tolist() for d in dips])
        with ck.guarded("response", "case%d" % ci, rp, rp):
            with contextlib.redirect_stdout(io.StringIO()):
                r0, pws, agg = respond(ens, dips, wds, pols, det, cpl, t2)
                again0 = last_again[0]
            scale = max(numpy.abs(r0["reph"]).max(),
                        numpy.abs(r0["nonr"]).max())
            # prefactor of every generated pathway
            es = list(pols) + [det]
            pmax = max(abs(pw.get_prefactor()) for pw in pws)
            worst = 0.0
            for pw in pws:
                ds = [pw.get_dmoment(k) for k in range(4)]
                n0 = pw.transitions[0, 1]
                want = (numpy.prod(pw.sides) * exact_avg(es, ds) *
                        numpy.real(agg.rho0[n0, n0]) * pw.evolfac)
                worst = max(worst, abs(pw.get_prefactor() - want) / pmax)
            ck.case("pathway-prefactors", ci, sample=dict(
                rp, npathways=len(pws), err=float(worst)))
            if worst > 1e-9:
                ck.violation("prefactor-is-exact-average", "pathways",
                             dict(rp, err=float(worst)), rp)
            e = float(numpy.abs(r0["totl"] - r0["reph"] - r0["nonr"]).max()
                      ) / scale
            ck.case("total-is-sum", ci, sample=dict(case=ci, err=e))
            if e > 1e-10:
                ck.violation("total-is-reph-plus-nonr", "response",
                             dict(rp, err=e), rp)
            ag2 = again0
            e2 = max(float(numpy.abs(ag2["totl"] - r0["totl"]).max()),
                     float(numpy.abs(ag2["totl2"] - r0["totl"]).max()),
                     float(numpy.abs(ag2["reph"] - r0["reph"]).max()),
                     float(numpy.abs(ag2["nonr"] - r0["nonr"]).max()),
                     float(numpy.abs(ag2["totl2"] - ag2["reph"] -
                                     ag2["nonr"]).max())) / scale
            ck.case("total-is-sum-any-read-order", ci,
                    sample=dict(case=ci, err=e2))
            if e2 > 1e-10:
                ck.violation("total-is-reph-plus-nonr", "response:reread",
                             dict(rp, err=e2), rp)
            with contextlib.redirect_stdout(io.StringIO()):
                Q = rot()
                r1, _, _ = respond(ens, [Q.dot(d) for d in dips], wds, pols,
                                   det, cpl, t2)
                Q2 = rot()
                r2, _, _ = respond(ens, dips, wds,
                                   tuple(Q2.dot(p) for p in pols),
                                   Q2.dot(det), cpl, t2)
                sfac = 1.7
                r3, _, _ = respond(ens, [sfac * d for d in dips], wds, pols,
                                   det, cpl, t2)
            for name, rr, f in (("rotate-dipoles", r1, 1.0),
                                ("rotate-polarisations", r2, 1.0),
                                ("fourth-power-scaling", r3, sfac ** 4)):
                e = max(float(numpy.abs(rr[k] - f * r0[k]).max())
                        for k in r0) / (scale * f)
                ck.case(name, ci, sample=dict(case=ci, err=e))
                if e > 1e-9:
                    ck.violation(name, "response", dict(rp, err=e), rp)
            if cpl is None:
                tot = {k: 0.0 for k in r0}
                with contextlib.redirect_stdout(io.StringIO()):
                    for m in range(nm):
                        rm, _, _ = respond([ens[m]], [dips[m]], [wds[m]],
                                           pols, det, None, t2)
                        for k in tot:
                            tot[k] = tot[k] + rm[k]
                for k in r0:
                    e = float(numpy.abs(r0[k] - tot[k]).max()) / scale
                    ck.case("additivity-uncoupled", (ci, k),
                            sample=dict(case=ci, part=k, err=e))
                    if e > 1e-9:
                        ck.violation("additivity-uncoupled", "part:" + k,
                                     dict(rp, part=k, err=e), rp)

    ck.assume("the icosahedral rotation group is a 5-design on SO(3) (its "
              "first non-trivial invariant polynomial has degree 6) and the "
              "integrand has degree 4, so the group average is the exact "
              "orientational average")
    ck.assume("response clauses are sampled metamorphic relations (5 / 8 "
              "aggregates, Gaussian line shapes, MockTwoDResponseCalculator); "
              "only the orientational clause is decided for all inputs")
    return ck.finish()
