# -*- coding: utf-8 -*-
"""C12 — third-order response: exact orientational average, additivity,
symmetry.

S  specs/Orientational.tla (+ generated Icosahedral.tla: the 60 icosahedral
   rotations in exact (1/2)Z[phi] arithmetic, a 5-design on SO(3))
T  TLC: F4e.M4.F4n equals the exact orientational average of the product of
   the four field-dipole projections on all 3^8 tuples of Cartesian basis
   vectors, hence (8-fold multilinearity) for all real polarisations and
   dipoles; group validated by ASSUMEs; negative control (M4 diagonal 3/30)
H  the real LabSetup + liouville_pathway.build/orientational_averaging on the
   same 6561 tuples against the specified integers; on random real vectors
   against the icosahedral average evaluated in floating point;
   sampled responses (uncoupled and coupled dimers / trimers with
   two-exciton states through MockTwoDResponseCalculator): prefactor of
   every generated pathway, total = rephasing + non-rephasing, invariance
   under common rotation of dipoles / polarisations, fourth-power scaling,
   additivity for uncoupled molecules (cross peaks cancel).
"""
import itertools
import math
import types

from harness.common import Check, MachineryFailure


def pathway_sets(ck, qr, numpy, rng, MockTwoDResponseCalculator):
    """Pathways.tla: TLC decides, for every bright/dark pattern and every
    transfer pattern in the bound, that the six generators produce exactly
    the double-sided diagrams of their direction.  Here the lists produced
    by the real generators for real aggregates (dark states, dark molecules,
    transfer during the waiting time) are validated by TLC against the same
    module (PathwaysTrace)."""
    import io
    import contextlib
    quick = "Pathways.cfg"
    ck.tlc("Pathways", quick, workers=16)
    if ck.thorough:
        ck.tlc("Pathways", "Pathways_3.cfg", workers=16, timeout=1500)
    ck.tlc("Pathways", "Pathways_defect_r3g.cfg", count=False,
           expect_violation="Complete")
    ck.tlc("Pathways", "Pathways_defect_esa.cfg", count=False,
           expect_violation="Sound")
    # uncoupled molecules: cross peaks cancel exactly (every dipole vector
    # with components in {-1,0,1} for dimers: decides the identity, of degree
    # <= 2 in every component, for all real dipoles; trimers on {0,1}^9, in
    # the thorough tier on {-1,0,1}^9)
    ck.tlc("PathwaysUncoupled", "PathwaysUncoupled_2.cfg", workers=16)
    ck.tlc("PathwaysUncoupled", "PathwaysUncoupled_3full.cfg" if ck.thorough
           else "PathwaysUncoupled_3.cfg", workers=16, timeout=2500)
    ck.tlc("PathwaysUncoupled", "PathwaysUncoupled_defect.cfg", count=False,
           expect_violation="CrossPeaksCancel")

    def system(energies, dipoles, coupling, transfer):
        mols = []
        with qr.energy_units("1/cm"):
            for en in energies:
                m = qr.Molecule([0.0, en])
                m.set_transition_width((0, 1), 100.0)
                mols.append(m)
        for m, d in zip(mols, dipoles):
            m.set_dipole(0, 1, list(d))
        agg = qr.Aggregate(molecules=mols)
        with qr.energy_units("1/cm"):
            for (i, j), J in (coupling or {}).items():
                agg.set_resonance_coupling(i, j, J)
        agg1 = agg.deepcopy()
        agg1.build(mult=1)
        ham = agg1.get_Hamiltonian()
        t2a = qr.TimeAxis(0.0, 5, 10.0)
        ops, rates = [], []
        with qr.eigenbasis_of(ham):
            for (a, b, k) in (transfer or [(0, 0, 0.0)]):
                ops.append(qr.qm.ProjectionOperator(a, b, dim=ham.dim))
                rates.append(k)
        sbi = qr.qm.SystemBathInteraction(ops, rates=tuple(rates))
        lform = qr.qm.LindbladForm(ham, sbi)
        eUt = qr.EvolutionSuperOperator(t2a, ham, relt=lform)
        eUt.set_dense_dt(10)
        eUt.calculate()
        agg.build(mult=2)
        agg.diagonalize()
        return agg, eUt

    X = [1.0, 0.0, 0.0]
    Y = [0.0, 1.0, 0.0]
    Z0 = [0.0, 0.0, 0.0]
    specs = [
        ("dimer", [12000., 12300.], [X, Y], None, None, 0.0),
        ("dimer-coupled", [12000., 12300.], [X, [0.3, 1, 0]],
         {(0, 1): 100.0}, None, 0.0),
        # symmetric homodimer: the antisymmetric exciton is dark
        ("homodimer-dark-exciton", [12000., 12000.], [X, X],
         {(0, 1): 100.0}, None, 0.0),
        ("dimer-dark-molecule", [12000., 12300.], [X, Z0], None, None, 0.0),
        ("dimer-transfer", [12000., 12300.], [X, Y], {(0, 1): 60.0},
         [(1, 2, 0.02)], 20.0),
        ("trimer", [12000., 12250., 12400.], [X, Y, [1, 1, 1]], None, None,
         0.0),
        ("trimer-coupled-transfer", [12000., 12250., 12400.],
         [X, Y, [1, 1, 1]], {(0, 1): 80.0, (1, 2): -50.0},
         [(1, 2, 0.01), (2, 3, 0.02)], 20.0),
        ("trimer-dark-molecule-transfer", [12000., 12250., 12400.],
         [X, Z0, [0, 1, 1]], None, [(2, 3, 0.02), (1, 2, 0.01)], 30.0),
    ]
    if ck.thorough:
        for k in range(6):
            n = 2 + k % 2
            en = list(12000.0 + numpy.sort(rng.uniform(0, 500, size=n)))
            dp = [list(rng.randn(3) * (rng.rand() > 0.25)) for i in range(n)]
            cp = {(i, j): float(rng.uniform(-100, 100))
                  for i in range(n) for j in range(i + 1, n)
                  if rng.rand() < 0.6}
            trn = [(int(a), int(b), float(rng.uniform(0.005, 0.03)))
                   for a in range(1, n + 1) for b in range(1, n + 1)
                   if a != b and rng.rand() < 0.4]
            specs.append(("random%d" % k, en, dp, cp, trn or None,
                          20.0 if trn else 0.0))
    names = ["R1g", "R2g", "R3g", "R4g", "R1f*", "R2f*"]
    systems, labels = [], []
    for (label, en, dp, cp, trn, t2) in specs:
        rp = dict(kind="pathway-set", system=label, energies=en,
                  dipoles=[list(map(float, d)) for d in dp],
                  coupling=str(cp), transfer=str(trn), t2=t2)
        with ck.guarded("pathway-set", label, rp, rp):
            with contextlib.redirect_stdout(io.StringIO()):
                agg, eUt = system(en, dp, cp, trn)
            gs = list(agg.get_electronic_groundstate())
            E = list(agg.get_excitonic_band(band=1))
            F = list(agg.get_excitonic_band(band=2))
            ne, nf = len(E), len(F)
            if gs != [0] or E != list(range(1, ne + 1)) or \
                    F != list(range(ne + 1, ne + nf + 1)):
                ck.model_drift("state numbering of %s: %r %r %r" % (
                    label, gs, E, F))
                continue
            D2 = numpy.array(agg.D2)
            if numpy.abs(D2 - D2.T).max() > 1e-9 * agg.D2_max:
                ck.model_drift("D2 of %s is not symmetric" % label)
                continue
            # thresholds exactly as liouville_pathways_3T takes them
            dip_tol = numpy.sqrt(agg.D2_max) * 1.0e-12
            evf_tol = 1.0e-6
            # stay away from the thresholds (rounding decides there)
            vals = [D2[e, 0] for e in E] + [D2[f, e] for f in F for e in E]
            if any(0.01 * dip_tol < v < 100 * dip_tol for v in vals):
                ck.note("pathway-set %s: a dipole strength within two "
                        "decades of the threshold, skipped" % label)
                continue
            U = eUt.at(t2)
            with qr.eigenbasis_of(eUt.get_Hamiltonian()):
                Ud = numpy.array(U.data)
            trset = []
            edge = False
            for a in E:
                for b in E:
                    for c in E:
                        for d in E:
                            v = abs(Ud[a, b, c, d])
                            if v > evf_tol:
                                trset.append([a, b, c, d])
                            if 0.01 * evf_tol < v < 100 * evf_tol:
                                edge = True
            if edge:
                ck.note("pathway-set %s: a transfer amplitude within two "
                        "decades of the threshold, skipped" % label)
                continue
            rec = {}
            allp = []
            for nm in names:
                with contextlib.redirect_stdout(io.StringIO()):
                    lst = agg.liouville_pathways_3T(ptype=nm, eUt=eUt, t2=t2)
                out = []
                for lp in lst:
                    rel = []
                    if lp.relaxations and lp.relaxations[0] is not None:
                        fin, sta = lp.relaxations[0]
                        rel = [int(fin[0]), int(fin[1]), int(sta[0]),
                               int(sta[1])]
                    out.append(dict(
                        t=[[int(x) for x in row] for row in lp.transitions],
                        s=[int(x) for x in lp.sides], rel=rel))
                    if int(lp.sign) != int(numpy.prod(lp.sides)):
                        ck.violation("pathway-sign", "%s:%s" % (label, nm),
                                     dict(rp, type=nm), rp)
                rec[nm] = out
                allp.extend((nm, lp) for lp in lst)
                ck.case("pathway-set", (label, nm), nontrivial=len(out) > 0,
                        sample=dict(system=label, type=nm, count=len(out)))
            if not cp and not trn:
                # PathwaysUncoupled.tla on the real pathway objects: signed
                # orientational weights (sign * F4n, all three components)
                # grouped by the frequencies of the three intervals cancel at
                # every cross peak
                EE = numpy.real(numpy.diag(numpy.array(agg.HH)))
                groups = {}
                wmax = 0.0
                for nm, lp in allp:
                    st = numpy.array(lp.states)
                    k3 = 3 if lp.relax_order else 2
                    k2 = 2 if lp.relax_order else 1
                    w1 = abs(EE[st[0, 0]] - EE[st[0, 1]])
                    w2 = EE[st[k2, 0]] - EE[st[k2, 1]]
                    w3 = EE[st[k3, 0]] - EE[st[k3, 1]]
                    key = (lp.pathway_type, round(w1, 9), round(w2, 9),
                           round(w3, 9))
                    wv = float(lp.sign) * numpy.array(lp.F4n)
                    wmax = max(wmax, float(numpy.abs(wv).max()))
                    groups[key] = groups.get(key, 0.0) + wv
                ncross = 0
                for key, wv in groups.items():
                    if key[1] == key[3]:
                        continue
                    ncross += 1
                    ck.case("cross-peak-weights-cancel", (label,) + key)
                    if numpy.abs(wv).max() > 1e-12 * max(wmax, 1e-300):
                        ck.violation("cross-peak-weights-cancel",
                                     "%s:%s" % (label, key[0]),
                                     dict(rp, group=list(key),
                                          weight=wv.tolist()), rp)
                if ncross == 0 and len(en) > 1 and \
                        sum(1 for d in dp if any(d)) > 1:
                    raise MachineryFailure("no cross peak in " + label)
            systems.append(dict(
                ne=ne, nf=nf, b1=[e for e in E if D2[e, 0] > dip_tol],
                b2=[[f, e] for f in F for e in E if D2[f, e] > dip_tol],
                tr=trset, rec=rec))
            labels.append((label, rp))
    if len(systems) < 6:
        raise MachineryFailure("pathway sets: only %d systems" % len(systems))

    def validate(systs):
        import tempfile, json, os, shutil
        tmp = tempfile.mkdtemp(prefix="pw_")
        try:
            path = os.path.join(tmp, "pw.json")
            with open(path, "w") as f:
                json.dump(dict(systems=systs), f)
            return ck.tlc("PathwaysTrace", "PathwaysTrace.cfg", workers=4,
                          env={"TRACE_FILE": path}, count=True,
                          _allow_violation=True)
        finally:
            shutil.rmtree(tmp, ignore_errors=True)
    res = validate(systems)
    ck.traces_validated += len(systems)
    if res["violated"]:
        import re
        m = re.findall(r"sid = (\d+)", res["out"])
        sid = int(m[-1]) if m else 0
        label, rp = labels[sid - 1] if sid else ("?", {})
        inv = str(res["violated"])
        ck.violation("pathway-set-is-specified",
                     "%s:%s" % (inv, label),
                     dict(rp, invariant=inv,
                          counts={k: len(v) for k, v in
                                  systems[sid - 1]["rec"].items()}
                          if sid else {}), rp)
    # negative control of the binding: a list with one pathway removed and a
    # list with one pathway twice must be rejected
    if res["violated"]:
        return
    import copy
    bad = copy.deepcopy(systems[1])
    bad["rec"]["R3g"] = bad["rec"]["R3g"][1:]
    r1 = validate([bad])
    bad = copy.deepcopy(systems[1])
    bad["rec"]["R1f*"].append(bad["rec"]["R1f*"][0])
    r2 = validate([bad])
    ck.traces_validated -= 0
    if r1["violated"] != "RecR3g" or r2["violated"] != "RecR1f":
        raise MachineryFailure("corrupted pathway lists accepted (%r, %r)" %
                               (r1["violated"], r2["violated"]))


def main():
    ck = Check("C12")
    import numpy
    import quantarhei as qr
    from quantarhei.spectroscopy.diagramatics import liouville_pathway
    from quantarhei.spectroscopy.mocktwodcalculator import \
        MockTwoDResponseCalculator

    rng = numpy.random.RandomState(ck.seed)

    ck.tlc("Orientational", "Orientational.cfg", workers=16)
    ck.tlc("Orientational", "Orientational_defect.cfg", count=False,
           expect_violation="PrefactorIsExactAverage")

    # the icosahedral group in floating point (same generators as the spec)
    phi = (1 + math.sqrt(5)) / 2
    A = numpy.diag([-1.0, -1.0, 1.0])
    B = numpy.array([[0, 0, 1.0], [1, 0, 0], [0, 1, 0]])
    C = 0.5 * numpy.array([[1, -phi, 1 / phi], [phi, 1 / phi, -1],
                           [1 / phi, 1, phi]])
    group = [numpy.eye(3)]
    frontier = [numpy.eye(3)]
    while frontier:
        new = []
        for g in frontier:
            for h in (A, B, C):
                p = g.dot(h)
                if not any(numpy.abs(p - q).max() < 1e-9 for q in group):
                    group.append(p)
                    new.append(p)
        frontier = new
    if len(group) != 60:
        raise MachineryFailure("float icosahedral group has %d elements" %
                               len(group))

    def exact_avg(es, ds):
        tot = 0.0
        for g in group:
            v = 1.0
            for k in range(4):
                v *= numpy.dot(es[k], g.dot(ds[k]))
            tot += v
        return tot / 60.0

    def pref30_spec(e, d):
        def F4(v):
            dl = lambda a, b: 1 if a == b else 0
            return [dl(v[3], v[2]) * dl(v[1], v[0]),
                    dl(v[3], v[1]) * dl(v[2], v[0]),
                    dl(v[3], v[0]) * dl(v[2], v[1])]
        fe, fn = F4(e), F4(d)
        M = [[4, -1, -1], [-1, 4, -1], [-1, -1, 4]]
        return sum(fe[i] * M[i][j] * fn[j] for i in range(3)
                   for j in range(3))

    fake_agg = types.SimpleNamespace(rho0=numpy.array([[1.0]]))
    basis = numpy.eye(3)

    def code_pref(es, ds, sides=(1, 1, 1, 1)):
        lab = qr.LabSetup()
        lab.set_pulse_polarizations(pulse_polarizations=(es[0], es[1], es[2]),
                                    detection_polarization=es[3])
        lp = liouville_pathway("R", 0, aggregate=fake_agg, order=3)
        for k in range(4):
            lp.dmoments[k, :] = ds[k]
            lp.sides[k] = sides[k]
        lp.transitions[0, 1] = 0
        lp.evolfac = 1.0
        lp.build()
        lp.orientational_averaging(lab)
        return float(lp.pref)

    # ------------------------ all 3^8 basis tuples vs the specified integers
    nb = 0
    for e in itertools.product(range(3), repeat=4):
        for d in itertools.product(range(3), repeat=4):
            want = pref30_spec(e, d) / 30.0
            rp = dict(kind="basis-tuple", e=list(e), d=list(d))
            got = code_pref([basis[i] for i in e], [basis[i] for i in d])
            nb += 1
            ck.case("prefactor-basis", (e, d), nontrivial=want != 0)
            if abs(got - want) > 1e-14:
                ck.violation("prefactor-is-exact-average", "basis-tuple",
                             dict(rp, got=got, want=want), rp)
    ck.traces_validated += nb
    # the same polarisations in the representations a user may type:
    # integer lists / tuples / integer arrays for the pulses, a float vector
    # for the analyser (and the other way round)
    forms = [("int-lists", lambda v: [int(x) for x in v]),
             ("int-array", lambda v: numpy.array(v).astype(int)),
             ("float-tuple", lambda v: tuple(float(x) for x in v)),
             ("float32", lambda v: numpy.array(v, dtype=numpy.float32))]
    for s in range(40 if ck.thorough else 12):
        fname, conv = forms[s % len(forms)]
        pulses = [basis[int(rng.randint(3))] for k in range(3)]
        det = rng.randn(3)
        det /= numpy.linalg.norm(det)
        ds = [rng.randn(3) for k in range(4)]
        for order in ("pulses-typed", "detection-typed"):
            if order == "pulses-typed":
                es_in = [conv(p) for p in pulses] + [det]
                es_ref = list(pulses) + [det]
            else:
                bdet = basis[int(rng.randint(3))]
                pf = [rng.randn(3) for k in range(3)]
                es_in = pf + [conv(bdet)]
                es_ref = pf + [bdet]
            want = exact_avg(es_ref, ds)
            got = code_pref(es_in, ds)
            rp = dict(kind="typed-polarisations", form=fname, which=order,
                      e=[[float(x) for x in v] for v in es_ref],
                      d=[v.tolist() for v in ds])
            ck.case("prefactor-input-types", (s, order),
                    sample=dict(rp, got=got, want=want))
            tolr = 1e-6 if fname == "float32" else 1e-11
            if abs(got - want) > tolr * max(1.0, abs(want)):
                ck.violation("prefactor-is-exact-average",
                             "typed-polarisations:" + fname,
                             dict(rp, got=got, want=want), rp)
    # random real vectors and signs of the sides
    for s in range(400 if ck.thorough else 60):
        es = [rng.randn(3) for k in range(4)]
        ds = [rng.randn(3) * 2 for k in range(4)]
        sides = [int(x) for x in rng.choice([-1, 1], size=4)]
        want = numpy.prod(sides) * exact_avg(es, ds)
        got = code_pref(es, ds, sides)
        sc = max(1.0, abs(want))
        rp = dict(kind="random-vectors", e=[v.tolist() for v in es],
                  d=[v.tolist() for v in ds], sides=sides)
        ck.case("prefactor-random", s, sample=dict(rp, got=got, want=want))
        if abs(got - want) > 1e-11 * sc:
            ck.violation("prefactor-is-exact-average", "random-vectors",
                         dict(rp, got=got, want=want), rp)

    # ----------------------------------------------------- response clauses
    X = numpy.array([1.0, 0.0, 0.0])
    Y = numpy.array([0.0, 1.0, 0.0])

    def respond(energies, dipoles, widths, pols, det, coupling=None, t2=0.0,
                reuse=None):
        if reuse is not None and "calc" in reuse:
            calc, agg, eUt = reuse["calc"], reuse["agg"], reuse["eUt"]
            return measure(calc, agg, eUt, pols, det, t2)
        mols = []
        with qr.energy_units("1/cm"):
            for en, wd in zip(energies, widths):
                mol = qr.Molecule([0.0, en])
                mol.set_transition_width((0, 1), wd)
                mols.append(mol)
        for mol, dd in zip(mols, dipoles):
            mol.set_dipole(0, 1, list(dd))
        agg = qr.Aggregate(molecules=mols)
        if coupling:
            with qr.energy_units("1/cm"):
                for (i, j), JJ in coupling.items():
                    agg.set_resonance_coupling(i, j, JJ)
        t1a = qr.TimeAxis(0.0, 40, 10.0)
        t2a = qr.TimeAxis(0.0, 5, 10.0)
        t3a = qr.TimeAxis(0.0, 40, 10.0)
        calc = MockTwoDResponseCalculator(t1a, t2a, t3a)
        with qr.energy_units("1/cm"):
            calc.bootstrap(rwa=12100.0, shape="Gaussian")
        agg1 = agg.deepcopy()
        agg1.build(mult=1)
        ham = agg1.get_Hamiltonian()
        with qr.eigenbasis_of(ham):
            op = qr.qm.ProjectionOperator(0, 0, dim=ham.dim)
        sbi = qr.qm.SystemBathInteraction([op], rates=(0.0,))
        lform = qr.qm.LindbladForm(ham, sbi)
        eUt = qr.EvolutionSuperOperator(t2a, ham, relt=lform)
        eUt.set_dense_dt(10)
        eUt.calculate()
        agg.build(mult=2)
        agg.diagonalize()
        if reuse is not None:
            reuse.update(calc=calc, agg=agg, eUt=eUt)
        return measure(calc, agg, eUt, pols, det, t2)

    def measure(calc, agg, eUt, pols, det, t2):
        lab = qr.LabSetup()
        lab.set_pulse_polarizations(pulse_polarizations=pols,
                                    detection_polarization=det)
        pws = dict()
        resp = calc.calculate_one_system(t2, agg, eUt, lab, pways=pws)
        out = {}
        for name, dt in (("reph", qr.signal_REPH), ("nonr", qr.signal_NONR),
                         ("totl", qr.signal_TOTL)):
            out[name] = numpy.array(resp.get_TwoDSpectrum(dtype=dt).data)
        # the views are read again in another order (total first, twice):
        # reading must not change what is stored
        again = {}
        for name, dt in (("totl", qr.signal_TOTL), ("reph", qr.signal_REPH),
                         ("totl2", qr.signal_TOTL), ("nonr", qr.signal_NONR)):
            again[name] = numpy.array(resp.get_TwoDSpectrum(dtype=dt).data)
        last_again[0] = again
        return out, pws[str(t2)], agg

    last_again = [None]

    def unitv():
        v = rng.randn(3)
        return v / numpy.linalg.norm(v)

    def rot():
        q, _ = numpy.linalg.qr(rng.randn(3, 3))
        if numpy.linalg.det(q) < 0:
            q[:, 0] *= -1
        return q

    cases = [
        ([12000., 12300.], [120., 120.], None, 0.0, ((X, X, X), X)),
        ([12000., 12300.], [100., 180.], None, 0.0, ((X, X, Y), Y)),
        ([12000., 12300.], [100., 180.], None, 20.0, None),
        ([12000., 12250., 12400.], [100., 160., 220.], None, 0.0, None),
        ([12000., 12300.], [100., 180.], {(0, 1): 80.0}, 10.0, None),
    ]
    # the same uncoupled trimer listed in orders that are not energy sorted
    # (a cyclic order is not its own inverse permutation)
    cases += [
        ([12250., 12400., 12000.], [160., 220., 100.], None, 0.0, None),
        ([12400., 12000., 12250.], [220., 100., 160.], None, 10.0, None),
    ]
    if ck.thorough:
        cases += [
            ([12000., 12250., 12400.], [90., 140., 200.], None, 30.0, None),
            ([12000., 12250., 12400.], [90., 140., 200.],
             {(0, 1): 60.0, (1, 2): -40.0}, 10.0, None),
            ([11900., 12300.], [150., 80.], None, 40.0, ((X, Y, Y), X)),
        ]
    import io
    import contextlib
    for ci, (ens, wds, cpl, t2, pol) in enumerate(cases):
        nm = len(ens)
        dips = [rng.randn(3) for k in range(nm)]
        pols, det = pol if pol else ((unitv(), unitv(), unitv()), unitv())
        rp = dict(kind="response", case=ci, energies=ens, widths=wds,
                  coupling=str(cpl), t2=t2,
                  dipoles=[d.tolist() for d in dips])
        with ck.guarded("response", "case%d" % ci, rp, rp):
            with contextlib.redirect_stdout(io.StringIO()):
                r0, pws, agg = respond(ens, dips, wds, pols, det, cpl, t2)
                again0 = last_again[0]
            scale = max(numpy.abs(r0["reph"]).max(),
                        numpy.abs(r0["nonr"]).max())
            # prefactor of every generated pathway
            es = list(pols) + [det]
            pmax = max(abs(pw.get_prefactor()) for pw in pws)
            worst = 0.0
            for pw in pws:
                ds = [pw.get_dmoment(k) for k in range(4)]
                n0 = pw.transitions[0, 1]
                want = (numpy.prod(pw.sides) * exact_avg(es, ds) *
                        numpy.real(agg.rho0[n0, n0]) * pw.evolfac)
                worst = max(worst, abs(pw.get_prefactor() - want) / pmax)
            ck.case("pathway-prefactors", ci, sample=dict(
                rp, npathways=len(pws), err=float(worst)))
            if worst > 1e-9:
                ck.violation("prefactor-is-exact-average", "pathways",
                             dict(rp, err=float(worst)), rp)
            e = float(numpy.abs(r0["totl"] - r0["reph"] - r0["nonr"]).max()
                      ) / scale
            ck.case("total-is-sum", ci, sample=dict(case=ci, err=e))
            if e > 1e-10:
                ck.violation("total-is-reph-plus-nonr", "response",
                             dict(rp, err=e), rp)
            ag2 = again0
            e2 = max(float(numpy.abs(ag2["totl"] - r0["totl"]).max()),
                     float(numpy.abs(ag2["totl2"] - r0["totl"]).max()),
                     float(numpy.abs(ag2["reph"] - r0["reph"]).max()),
                     float(numpy.abs(ag2["nonr"] - r0["nonr"]).max()),
                     float(numpy.abs(ag2["totl2"] - ag2["reph"] -
                                     ag2["nonr"]).max())) / scale
            ck.case("total-is-sum-any-read-order", ci,
                    sample=dict(case=ci, err=e2))
            if e2 > 1e-10:
                ck.violation("total-is-reph-plus-nonr", "response:reread",
                             dict(rp, err=e2), rp)
            with contextlib.redirect_stdout(io.StringIO()):
                Q = rot()
                r1, _, _ = respond(ens, [Q.dot(d) for d in dips], wds, pols,
                                   det, cpl, t2)
                Q2 = rot()
                r2, _, _ = respond(ens, dips, wds,
                                   tuple(Q2.dot(p) for p in pols),
                                   Q2.dot(det), cpl, t2)
                sfac = 1.7
                r3, _, _ = respond(ens, [sfac * d for d in dips], wds, pols,
                                   det, cpl, t2)
            for name, rr, f in (("rotate-dipoles", r1, 1.0),
                                ("rotate-polarisations", r2, 1.0),
                                ("fourth-power-scaling", r3, sfac ** 4)):
                e = max(float(numpy.abs(rr[k] - f * r0[k]).max())
                        for k in r0) / (scale * f)
                ck.case(name, ci, sample=dict(case=ci, err=e))
                if e > 1e-9:
                    ck.violation(name, "response", dict(rp, err=e), rp)
            if cpl is None:
                tot = {k: 0.0 for k in r0}
                with contextlib.redirect_stdout(io.StringIO()):
                    for m in range(nm):
                        rm, _, _ = respond([ens[m]], [dips[m]], [wds[m]],
                                           pols, det, None, t2)
                        for k in tot:
                            tot[k] = tot[k] + rm[k]
                for k in r0:
                    e = float(numpy.abs(r0[k] - tot[k]).max()) / scale
                    ck.case("additivity-uncoupled", (ci, k),
                            sample=dict(case=ci, part=k, err=e))
                    if e > 1e-9:
                        ck.violation("additivity-uncoupled", "part:" + k,
                                     dict(rp, part=k, err=e), rp)

    # one calculator, one aggregate and one evolution superoperator asked
    # for a sequence of polarisation settings (as in an anisotropy scan):
    # every answer is the one a fresh calculator gives, every pathway carries
    # the exact average for ITS setting, and the isotropic identity
    # S(XXXX) = S(XXYY) + S(XYXY) + S(XYYX) holds between the answers
    Z = numpy.array([0.0, 0.0, 1.0])
    scans = [(1, [((X, X, X), X), ((X, X, Y), Y), ((X, Y, X), Y),
                  ((X, Y, Y), X)]),
             (4, [((Z, Z, Z), Z), ((Z, Z, X), X), ((Z, X, Z), X),
                  ((Z, X, X), Z)])]
    if ck.thorough:
        scans.append((8, [((Y, Y, Y), Y), ((Y, Y, Z), Z), ((Y, Z, Y), Z),
                          ((Y, Z, Z), Y)]))
    for ci, settings in scans:
        ens, wds, cpl, t2, _p = cases[ci]
        nm = len(ens)
        dips = [rng.randn(3) for k in range(nm)]
        rp = dict(kind="polarisation-scan", case=ci, energies=ens,
                  widths=wds, coupling=str(cpl), t2=t2,
                  dipoles=[d.tolist() for d in dips])
        with ck.guarded("response", "scan%d" % ci, rp, rp):
            shared = {}
            got = []
            for k, (pols, det) in enumerate(settings):
                with contextlib.redirect_stdout(io.StringIO()):
                    rs, pws, agg = respond(ens, dips, wds, pols, det, cpl, t2,
                                           reuse=shared)
                    rf, _, _ = respond(ens, dips, wds, pols, det, cpl, t2)
                got.append(rs)
                scale = max(numpy.abs(rf["reph"]).max(),
                            numpy.abs(rf["nonr"]).max(), 1e-300)
                e = max(float(numpy.abs(rs[q] - rf[q]).max())
                        for q in rf) / scale
                es = list(pols) + [det]
                pmax = max(abs(pw.get_prefactor()) for pw in pws)
                worst = 0.0
                for pw in pws:
                    ds = [pw.get_dmoment(q) for q in range(4)]
                    n0 = pw.transitions[0, 1]
                    want = (numpy.prod(pw.sides) * exact_avg(es, ds) *
                            numpy.real(agg.rho0[n0, n0]) * pw.evolfac)
                    worst = max(worst, abs(pw.get_prefactor() - want) / pmax)
                ck.case("calculator-reused", (ci, k), sample=dict(
                    case=ci, setting=k, err=e, prefactor_err=float(worst)))
                if e > 1e-9:
                    ck.violation("prefactor-is-exact-average",
                                 "calculator-reused:spectrum",
                                 dict(rp, setting=k, err=e), rp)
                if worst > 1e-9:
                    ck.violation("prefactor-is-exact-average",
                                 "calculator-reused:pathways",
                                 dict(rp, setting=k, err=float(worst)), rp)
            scale = max(numpy.abs(got[0]["totl"]).max(), 1e-300)
            e = float(numpy.abs(got[0]["totl"] - got[1]["totl"] -
                                got[2]["totl"] - got[3]["totl"]).max()) / scale
            ck.case("isotropic-identity", ci, sample=dict(case=ci, err=e))
            if e > 1e-9:
                ck.violation("prefactor-is-exact-average",
                             "isotropic-identity", dict(rp, err=e), rp)

    pathway_sets(ck, qr, numpy, rng, MockTwoDResponseCalculator)

    ck.assume("the icosahedral rotation group is a 5-design on SO(3) (its "
              "first non-trivial invariant polynomial has degree 6) and the "
              "integrand has degree 4, so the group average is the exact "
              "orientational average")
    ck.assume("response clauses are sampled metamorphic relations (5 / 8 "
              "aggregates, Gaussian line shapes, MockTwoDResponseCalculator); "
              "only the orientational clause is decided for all inputs")
    return ck.finish()
