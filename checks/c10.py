# -*- coding: utf-8 -*-
"""C10 — vibronic structure follows the displaced-oscillator model.

S  specs/Vibronic.tla: vibronic state space (per electronic state the full
   product of the declared level counts, ndindex order)
T  TLC: count = product of level counts, complete and duplicate free, total
   count, for 6 aggregates (1-3 molecules, 0-2 modes each, state dependent
   level counts) x multiplicity 1, 2; ordered state lists exported
H  real aggregates built for the same instances: number and identity of the
   vibronic states; every Hamiltonian and dipole element compared with
   (electronic quantity) x (product over all modes of the displaced-
   oscillator overlap) with overlaps from the closed form (Laguerre);
   sampled: Poisson law of the first column, general overlaps, orthogonality
   of the block the aggregate uses, Huang-Rhys round trip.
"""
import os
import json
import math
import tempfile
import shutil

from harness.common import Check, MachineryFailure


def fc_closed(alpha, n, m):
    """<n| exp(alpha a^+ - alpha^* a) |m> for real alpha (closed form)."""
    from scipy.special import eval_genlaguerre, gammaln
    x = alpha * alpha
    if n >= m:
        return (math.exp(0.5 * (gammaln(m + 1) - gammaln(n + 1)))
                * alpha ** (n - m) * math.exp(-x / 2)
                * eval_genlaguerre(m, n - m, x))
    return (math.exp(0.5 * (gammaln(n + 1) - gammaln(m + 1)))
            * (-alpha) ** (m - n) * math.exp(-x / 2)
            * eval_genlaguerre(n, m - n, x))


def main():
    ck = Check("C10")
    import numpy
    import quantarhei as qr
    from quantarhei.qm.oscillators.ho import operator_factory

    rng = numpy.random.RandomState(ck.seed)
    tmp = tempfile.mkdtemp(prefix="c10_")
    try:
        ck.tlc("Vibronic", "Vibronic.cfg", workers=8, env={"TABLE_DIR": tmp})
        tables = []
        for f in sorted(os.listdir(tmp)):
            if f.startswith("vib_"):
                tables.append(json.load(open(os.path.join(tmp, f))))
    finally:
        shutil.rmtree(tmp, ignore_errors=True)
    if len(tables) < 12:
        raise MachineryFailure("tables missing")

    for row in tables:
        agg, mult = row["agg"], row["mult"]
        N = len(agg)
        if mult > N:
            pass
        E = [1.0 + 0.07 * k for k in range(N)]
        om = {}
        hr = {}
        for m in range(N):
            for j in range(len(agg[m])):
                om[(m, j)] = 0.01 + 0.004 * (3 * m + j)
                hr[(m, j)] = 0.1 + 0.23 * ((2 * m + j) % 4)
                if row["inst"] == 4:
                    # two molecules with nearly (not exactly) equal
                    # Huang-Rhys factors
                    hr[(m, j)] = 0.0500 + 0.0002 * m
                if max(agg[m][j]) > 8:
                    # many declared levels: overlaps between highly excited
                    # levels matter only for sizeable displacements
                    hr[(m, j)] = 2.0 - 0.5 * m
        J = numpy.zeros((N, N))
        for k in range(N):
            for l in range(k + 1, N):
                J[k, l] = J[l, k] = 0.003 * (1 + k + 2 * l)
        dip = [numpy.array([1.0 + k, 0.5 * k, -0.3]) for k in range(N)]
        rp = dict(kind="instance", inst=row["inst"], mult=mult, agg=agg)
        with ck.guarded("vibronic-elements", "build", rp, rp):
            with qr.energy_units("int"):
                mols = []
                for m in range(N):
                    mol = qr.Molecule([0.0, E[m]])
                    mol.set_dipole(0, 1, list(dip[m]))
                    for j in range(len(agg[m])):
                        mod = qr.Mode(om[(m, j)])
                        mol.add_Mode(mod)
                        mod.set_nmax(0, agg[m][j][0])
                        mod.set_nmax(1, agg[m][j][1])
                        # the displacement is handed over in the ways the
                        # Mode accepts: Huang-Rhys factor, dimensionless
                        # shift, all parameters at once; whole-number
                        # shifts as the integers a user would type
                        dsh = math.sqrt(2.0 * hr[(m, j)])
                        whole = abs(dsh - round(dsh)) < 1e-12
                        form = (row["inst"] + m + j) % 3
                        if form == 0 and not whole:
                            mod.set_HR(1, hr[(m, j)])
                        elif form == 1 or (form == 0 and whole):
                            if whole:
                                mod.set_shift(0, 0)
                                mod.set_shift(1, int(round(dsh)))
                            else:
                                mod.set_shift(1, dsh)
                        else:
                            if whole:
                                mod.set_all(0, [om[(m, j)], 0,
                                                agg[m][j][0]])
                                mod.set_all(1, [om[(m, j)], int(round(dsh)),
                                                agg[m][j][1]])
                            else:
                                mod.set_all(1, [om[(m, j)], dsh,
                                                agg[m][j][1]])
                    mols.append(mol)
                ag = qr.Aggregate(mols)
                for k in range(N):
                    for l in range(k + 1, N):
                        ag.set_resonance_coupling(k, l, J[k, l])
                ag.build(mult=mult)
                HH = numpy.array(ag.get_Hamiltonian().data)
                DD = numpy.array(ag.get_TransitionDipoleMoment().data)
            def compare(ag, hr, HH, DD, tag):
                rpt = dict(rp, stage=tag)
                real_states = [(tuple(int(x) for x in s[0]),
                                tuple(int(x) for x in s[1]))
                               for s in ag.vibsigs]
                spec_states = [(tuple(s["el"]), tuple(s["vib"]))
                               for s in row["states"]]
                ck.case("state-count", (row["inst"], mult, tag), sample=dict(
                    rpt, ntot=len(real_states)))
                if sorted(real_states) != sorted(spec_states) or \
                        ag.Ntot != len(spec_states):
                    ck.violation("state-count", "product-of-levels", dict(
                        rpt, got=len(real_states), want=len(spec_states)),
                        rpt)
                    return
                if real_states != spec_states:
                    ck.model_drift("vibronic state order differs for "
                                   "instance %d" % row["inst"])
                flat = [(m - 1, j - 1) for (m, j) in row["flat"]]
                shift = {k: math.sqrt(2.0 * hr[k]) for k in hr}
                pos = {s: i for i, s in enumerate(real_states)}

                def fcprod(e1, v1, e2, v2):
                    p = 1.0
                    for q, (m, j) in enumerate(flat):
                        d = (shift[(m, j)] if e1[m] == 1 else 0.0) - \
                            (shift[(m, j)] if e2[m] == 1 else 0.0)
                        if d == 0.0:
                            p *= 1.0 if v1[q] == v2[q] else 0.0
                        else:
                            p *= fc_closed(d / math.sqrt(2.0), v1[q], v2[q])
                    return p

                worst = 0.0
                for (e1, v1) in spec_states:
                    for (e2, v2) in spec_states:
                        a, b = pos[(e1, v1)], pos[(e2, v2)]
                        diff = [k for k in range(N) if e1[k] != e2[k]]
                        fc = fcprod(e1, v1, e2, v2)
                        if a == b:
                            wantH = sum(E[k] for k in range(N) if e1[k]) + \
                                sum(v1[q] * om[flat[q]]
                                    for q in range(len(flat)))
                        elif len(diff) == 2 and sum(e1) == sum(e2):
                            wantH = J[diff[0], diff[1]] * fc
                        else:
                            wantH = 0.0
                        wantD = dip[diff[0]] * fc if len(diff) == 1 else \
                            numpy.zeros(3)
                        eh = abs(HH[a, b] - wantH)
                        ed = float(numpy.abs(DD[a, b, :] - wantD).max())
                        worst = max(worst, eh, ed)
                        ck.case("vibronic-elements",
                                (row["inst"], mult, tag, a, b),
                                nontrivial=(a != b and (
                                    wantH != 0 or numpy.any(wantD != 0))))
                        if eh > 1e-10:
                            ck.violation(
                                "hamiltonian-element-is-product",
                                "H:" + tag, dict(rpt, s1=[e1, v1],
                                                 s2=[e2, v2],
                                                 got=float(HH[a, b]),
                                                 want=wantH), rpt)
                        if ed > 1e-10:
                            ck.violation(
                                "dipole-element-is-product", "D:" + tag,
                                dict(rpt, s1=[e1, v1], s2=[e2, v2],
                                     got=DD[a, b, :].tolist(),
                                     want=list(map(float, wantD))), rpt)
                ck.samples.append({"clause": "vibronic-elements",
                                   "case": dict(rpt, ntot=len(spec_states),
                                                worst_err=worst)})

            ck.traces_validated += 1
            compare(ag, hr, HH, DD, "first-build")
            # the same aggregate object after its modes were changed and it
            # was rebuilt: nothing of the first build may survive
            if any(len(a) for a in agg):
                hr2 = {k: v + 0.17 for k, v in hr.items()}
                with qr.energy_units("int"):
                    for m in range(N):
                        for j in range(len(agg[m])):
                            ag.monomers[m].get_Mode(j).set_HR(1, hr2[(m, j)])
                    ag.rebuild(mult=mult)
                    HH2 = numpy.array(ag.get_Hamiltonian().data)
                    DD2 = numpy.array(ag.get_TransitionDipoleMoment().data)
                compare(ag, hr2, HH2, DD2, "rebuilt-after-set_HR")

    # ------------------------------------------- Franck-Condon law (sampled)
    of = operator_factory(N=100)
    nfc = 40 if ck.thorough else 12
    for s in range(nfc):
        S = float(rng.uniform(0.01, 2.5))
        d = math.sqrt(2.0 * S)
        M = numpy.array(of.shift_operator(d))
        rp = dict(kind="fc-law", S=S, shift=d)
        col = numpy.abs(M[:12, 0]) ** 2
        pois = numpy.array([math.exp(-S) * S ** n / math.factorial(n)
                            for n in range(12)])
        e = float(numpy.abs(col - pois).max())
        ck.case("poisson-from-ground", s, sample=dict(rp, err=e))
        if e > 1e-10:
            ck.violation("poisson-from-ground", "shift_operator",
                         dict(rp, err=e, col=col[:5].tolist(),
                              poisson=pois[:5].tolist()), rp)
        worst = 0.0
        for n in range(8):
            for m in range(8):
                worst = max(worst, abs(M[n, m] - fc_closed(
                    d / math.sqrt(2.0), n, m)))
        ck.case("overlaps-closed-form", s, sample=dict(rp, err=worst))
        if worst > 1e-10:
            ck.violation("overlaps-closed-form", "shift_operator",
                         dict(rp, err=worst), rp)
        # orthogonality of the 20x20 block used by the aggregate, up to the
        # weight that leaks out of the block
        B = M[:20, :20]
        G = B.conj().T.dot(B)
        leak = float(numpy.max(1.0 - numpy.sum(numpy.abs(B) ** 2, axis=0)[:8]))
        oe = float(numpy.abs(G[:8, :8] - numpy.eye(8)).max())
        ck.case("orthogonal-up-to-truncation", s, sample=dict(
            rp, err=oe, leak=leak))
        if oe > 10 * max(leak, 0.0) + 1e-10:
            ck.violation("orthogonal-up-to-truncation", "shift_operator",
                         dict(rp, err=oe, leak=leak), rp)
        # Huang-Rhys round trip on a real mode
        with qr.energy_units("1/cm"):
            mol = qr.Molecule([0.0, 12000.0])
            mod = qr.Mode(300.0)
            mol.add_Mode(mod)
            mod.set_HR(1, S)
            g = float(mod.get_HR(1))
            sh = float(mod.get_shift(1))
        ck.case("huang-rhys-round-trip", s)
        if abs(g - S) > 1e-12 or abs(sh * sh / 2.0 - S) > 1e-12:
            ck.violation("huang-rhys-round-trip", "mode", dict(
                rp, got=g, shift=sh), rp)

    ck.assume("full vibrational state space only (vibgen_approx=None), as "
              "the property states; two-level molecules")
    ck.assume("overlaps from the closed form <n|D(alpha)|m> (Laguerre), "
              "alpha = shift/sqrt2, Huang-Rhys factor = shift^2/2; elements "
              "compared at 1e-10 (the library diagonalises a 100-level "
              "generator)")
    return ck.finish()
