# -*- coding: utf-8 -*-
"""C01 — relaxation generators preserve trace and Hermiticity.

S  specs/TensorAlgebra.tla (Gaussian-integer transcription of the tensor
   assembly, completion, dephasing, secularisation and basis transformation)
T  TLC decides trace / Hermiticity preservation of the assembly on all basis
   pairs (K real, L complex) of dimension 2 (3 thorough) => for all K, L;
   the same for the secular projector, for unitary monomial transformations,
   for the rate completion and for the Foerster dephasing term; three
   negative controls (Ld without conjugation, h_a + h_b, wrong transform).
   The tensor of every basis pair is exported.
H  tables: the real _convert_operators_2_tensor (Redfield, TD Redfield),
   LindbladForm, updateStructure and both secularisation routines are run on
   the exact basis instances and compared with the tables (==);
   sampled: every theory x option combination of get_RelaxationTensor and the
   direct constructors on random aggregates; both identities at every time
   index outside and inside eigenbasis_of(H); secularisation clauses.
"""
import itertools
import types

from harness.common import Check, MachineryFailure
from harness import tensors as T


def main():
    ck = Check("C01")
    import numpy
    import quantarhei as qr
    from quantarhei.qm import (RedfieldRelaxationTensor,
                               TDRedfieldRelaxationTensor, LindbladForm)
    from quantarhei.qm.liouvillespace.relaxationtensor import RelaxationTensor

    rng = numpy.random.RandomState(ck.seed)

    # ------------------------------------------------------------------ TLC
    dim = 3 if ck.thorough else 2
    tables = T.load_tensor_tables(
        ck, dim, "TensorAlgebra_3.cfg" if ck.thorough else "TensorAlgebra.cfg")
    for name, inv in (("LdMode", "HermiticityPreserved"),
                      ("DephMode", "DephaseOK"),
                      ("TransMode", "TransformCovariant")):
        ck.tlc("TensorAlgebra", "TensorAlgebra_defect_%s.cfg" % name,
               count=False, expect_violation=inv)

    # --------------------------------------- tables vs the real assembly code
    N = dim
    mask = T.sec_keep_mask(N)
    for (ki, kj, li, lj, im), Rt in sorted(tables.items()):
        K = T.unit(N, ki, kj)
        L = T.unit(N, li, lj, 1j if im else 1.0, dtype=complex)
        Km = K[None, :, :]
        Lm = L[None, :, :]
        Ld = numpy.conj(L.T)[None, :, :]
        rp = dict(kind="basis-pair", N=N, K=[ki, kj], L=[li, lj], imag=im)
        ck.traces_validated += 1
        with ck.guarded("assembly", "redfield", rp, rp):
            fake = T.fake_redfield(N, 1)
            RR = RedfieldRelaxationTensor._convert_operators_2_tensor(
                fake, Km, Lm, Ld)
            _judge(ck, "assembly:redfield", RR, Rt, rp)
        # time-dependent assembly: defined for symmetric K only
        if ki <= kj:
            Ks = K + K.T if ki != kj else K
            Rs = Rt + (tables[(kj, ki, li, lj, im)] if ki != kj else 0)
            with ck.guarded("assembly", "td-redfield", rp, rp):
                fake = T.fake_redfield(N, 1, Nt=2)
                LmT = numpy.array([Lm, 2 * Lm])
                LdT = numpy.array([Ld, 2 * Ld])
                RR = TDRedfieldRelaxationTensor._convert_operators_2_tensor(
                    fake, Ks[None, :, :], LmT, LdT)
                _judge(ck, "assembly:td-redfield", RR[0], Rs, rp)
                _judge(ck, "assembly:td-redfield", RR[1], 2 * Rs, rp)
        # Lindblad form: L = (rate/2) K, rate 2
        if (ki, kj) == (li, lj) and not im:
            with ck.guarded("assembly", "lindblad", rp, rp):
                ham = qr.Hamiltonian(data=numpy.diag(numpy.arange(N) * 1.0))
                op = qr.qm.Operator(data=K.copy())
                sbi = qr.qm.SystemBathInteraction(sys_operators=[op],
                                                  rates=(2.0,))
                lf = LindbladForm(ham, sbi, as_operators=False)
                _judge(ck, "assembly:lindblad", lf.data, Rt, rp)
                lf2 = LindbladForm(ham, sbi, as_operators=True)
                lf2.convert_2_tensor()
                _judge(ck, "assembly:lindblad-converted", lf2.data, Rt, rp)
        # secularisation (both routines) of the exact tensor
        for legacy in (True, False):
            with ck.guarded("secular", "secularize", rp, rp):
                rt = RelaxationTensor()
                rt.dim = N
                rt.data = Rt.copy()
                if legacy:
                    rt.secularize()
                else:
                    rt.secularize(legacy=False)
                got = numpy.array(rt.data)
                want = numpy.where(mask, Rt, 0)
                ck.case("secular", (ki, kj, li, lj, im, legacy),
                        nontrivial=bool(numpy.abs(Rt[~mask]).max() > 0))
                if not numpy.array_equal(got, want):
                    ck.violation("secular", "secularize:legacy=%s" % legacy,
                                 dict(rp, legacy=legacy), rp)

    # rate completion (updateStructure) on exact rate matrices
    for k in itertools.product((0.0, 1.0, 3.0), repeat=N * (N - 1)):
        kk = numpy.zeros((N, N))
        it = iter(k)
        for i in range(N):
            for j in range(N):
                if i != j:
                    kk[i, j] = next(it)
        rt = RelaxationTensor()
        rt.dim = N
        d = numpy.zeros((N, N, N, N), dtype=complex)
        for i in range(N):
            for j in range(N):
                if i != j:
                    d[i, i, j, j] = kk[i, j]
        rt.data = d
        rt.updateStructure()
        got = numpy.array(rt.data)
        rp = dict(kind="rates", rates=kk.tolist())
        ck.case("completion", k, nontrivial=any(k))
        if T.trace_defect(got) != 0 or T.herm_defect(got) != 0:
            ck.violation("completion", "updateStructure",
                         dict(rp, trace=T.trace_defect(got),
                              herm=T.herm_defect(got)), rp)

    # ------------------------------------- sampled systems, all theories
    nsys = 8 if ck.thorough else 3
    for s in range(nsys):
        Nm = int(rng.randint(2, 5 if ck.thorough else 4))
        ag, ta = T.build_aggregate(qr, rng, Nm, Nt=150, dt=2.0)
        ham = ag.get_Hamiltonian()
        combos = []
        for td in (False, True):
            for sec in (False, True):
                for asop in (False, True):
                    combos.append(("standard_Redfield", dict(
                        time_dependent=td, secular_relaxation=sec,
                        as_operators=asop)))
            combos.append(("standard_Redfield", dict(
                time_dependent=True, relaxation_cutoff_time=100.0)))
            combos.append(("standard_Foerster", dict(time_dependent=td)))
            combos.append(("combined_RedfieldFoerster", dict(
                time_dependent=td)))
        combos.append(("combined_RedfieldFoerster", dict(
            time_dependent=False, coupling_cutoff=0.004)))
        combos.append(("combined_RedfieldFoerster", dict(
            time_dependent=False, coupling_cutoff=0.004,
            secular_relaxation=True)))
        for theory, opts in combos:
            rp = dict(kind="system", seed=ck.seed, system=s, N=Nm,
                      theory=theory, opts=opts)
            try:
                ag.get_RelaxationTensor(ta, relaxation_theory=theory, **opts)
            except Exception as e:
                if "Cannot be secularized" in str(e):
                    # an option combination the library refuses
                    ck.case("refused-combination", (theory, str(opts)),
                            nontrivial=False)
                    continue
            with ck.guarded("built-tensor", theory, rp, rp):
                RT, H2 = ag.get_RelaxationTensor(ta, relaxation_theory=theory,
                                                 **opts)
                if getattr(RT, "as_operators", False):
                    RT.convert_2_tensor()
                for where in ("outside", "inside"):
                    if where == "inside":
                        with qr.eigenbasis_of(ham):
                            d = numpy.array(RT.data)
                    else:
                        d = numpy.array(RT.data)
                    sc = max(float(numpy.abs(d).max()), 1e-300)
                    td_, hd_ = T.trace_defect(d) / sc, T.herm_defect(d) / sc
                    ck.case("built-tensor", (s, theory, str(opts), where),
                            sample=dict(rp, where=where, trace=td_, herm=hd_,
                                        shape=list(d.shape)))
                    if td_ > 1e-10:
                        ck.violation("trace-preserving", "built:" + theory,
                                     dict(rp, where=where, defect=td_), rp)
                    if hd_ > 1e-10:
                        ck.violation("hermiticity-preserving",
                                     "built:" + theory,
                                     dict(rp, where=where, defect=hd_), rp)
                    if opts.get("secular_relaxation") and where == "outside":
                        pass
            # the operator form acting on operators ("maps any operator to
            # a traceless operator and commutes with Hermitian conjugation"),
            # in the site basis and in a sequence of different basis
            # contexts entered one after another
            if opts.get("as_operators") and not opts.get(
                    "secular_relaxation") and not opts.get("time_dependent"):
                with ck.guarded("operator-form-apply", theory, rp, rp):
                    RTa, _ = ag.get_RelaxationTensor(
                        ta, relaxation_theory=theory, **opts)
                    nn = ham.dim
                    rs = numpy.random.RandomState(13 * nn + s)
                    ctxs = [None]
                    for k in range(3):
                        Bq = rs.randn(nn, nn) + (1j * rs.randn(nn, nn)
                                                 if k == 1 else 0.0)
                        ctxs.append(qr.qm.SelfAdjointOperator(
                            data=(Bq + Bq.conj().T) / 2))
                    ctxs.append(ham)
                    X0 = rs.randn(nn, nn) + 1j * rs.randn(nn, nn)
                    for ci, cop in enumerate(ctxs):
                        import contextlib as _cl
                        with (qr.eigenbasis_of(cop) if cop is not None
                              else _cl.nullcontext()):
                            X = qr.qm.Operator(data=X0.copy())
                            Xd = qr.qm.Operator(data=X0.conj().T.copy())
                            Y = numpy.array(RTa.apply(X).data)
                            Yd = numpy.array(RTa.apply(Xd).data)
                        sc = max(float(numpy.abs(Y).max()), 1e-300)
                        td_ = abs(numpy.trace(Y)) / sc
                        hd_ = float(numpy.abs(Yd - Y.conj().T).max()) / sc
                        ck.case("operator-form-apply",
                                (s, theory, str(opts), ci),
                                nontrivial=ci > 0,
                                sample=dict(rp, context=ci, trace=td_,
                                            herm=hd_))
                        if td_ > 1e-10:
                            ck.violation("trace-preserving",
                                         "operator-form-apply:" + theory,
                                         dict(rp, context=ci, defect=td_), rp)
                        if hd_ > 1e-10:
                            ck.violation("hermiticity-preserving",
                                         "operator-form-apply:" + theory,
                                         dict(rp, context=ci, defect=hd_), rp)
            # an operator-form tensor converted to the tensor form inside the
            # eigenbasis of a complex Hermitian operator ("in every basis")
            if opts.get("as_operators") and not opts.get(
                    "secular_relaxation"):
                with ck.guarded("converted-in-complex-basis", theory, rp, rp):
                    RT4, _ = ag.get_RelaxationTensor(
                        ta, relaxation_theory=theory, **opts)
                    nn = ham.dim
                    Bc = numpy.random.RandomState(5 * nn + s).randn(nn, nn) \
                        + 1j * numpy.random.RandomState(9 * nn + s).randn(
                            nn, nn)
                    Acx = qr.qm.SelfAdjointOperator(
                        data=(Bc + Bc.conj().T) / 2)
                    with qr.eigenbasis_of(Acx):
                        RT4.convert_2_tensor()
                        d_in = numpy.array(RT4.data)
                    d_out = numpy.array(RT4.data)
                    for where, d in (("complex-basis", d_in),
                                     ("after-complex-basis", d_out)):
                        sc = max(float(numpy.abs(d).max()), 1e-300)
                        td_ = T.trace_defect(d) / sc
                        hd_ = T.herm_defect(d) / sc
                        ck.case("converted-in-complex-basis",
                                (s, theory, str(opts), where),
                                sample=dict(rp, where=where, trace=td_,
                                            herm=hd_))
                        if td_ > 1e-10:
                            ck.violation("trace-preserving",
                                         "converted-in-complex-basis:" +
                                         theory, dict(rp, where=where,
                                                      defect=td_), rp)
                        if hd_ > 1e-10:
                            ck.violation("hermiticity-preserving",
                                         "converted-in-complex-basis:" +
                                         theory, dict(rp, where=where,
                                                      defect=hd_), rp)
            # the same object calculated a second time (public initialize(),
            # e.g. after a parameter of the system was changed): what it then
            # holds is again a relaxation tensor the package has built
            with ck.guarded("recalculated-tensor", theory, rp, rp):
                RT3, _ = ag.get_RelaxationTensor(ta, relaxation_theory=theory,
                                                 **opts)
                done = False
                if hasattr(RT3, "initialize") and not opts.get(
                        "secular_relaxation"):
                    try:
                        RT3.initialize()
                        done = True
                    except TypeError:
                        done = False
                if done:
                    if getattr(RT3, "as_operators", False):
                        RT3.convert_2_tensor()
                    d = numpy.array(RT3.data)
                    sc = max(float(numpy.abs(d).max()), 1e-300)
                    td_, hd_ = T.trace_defect(d) / sc, T.herm_defect(d) / sc
                    ck.case("recalculated-tensor", (s, theory, str(opts)),
                            sample=dict(rp, trace=td_, herm=hd_))
                    if td_ > 1e-10:
                        ck.violation("trace-preserving",
                                     "recalculated:" + theory,
                                     dict(rp, defect=td_), rp)
                    if hd_ > 1e-10:
                        ck.violation("hermiticity-preserving",
                                     "recalculated:" + theory,
                                     dict(rp, defect=hd_), rp)
            # secularisation clauses on the built (non-secular) tensor:
            # secularize() is applied inside the eigenbasis context and the
            # data before / after are compared in that same basis
            if not opts.get("secular_relaxation"):
                with ck.guarded("secular", theory, rp, rp):
                    RT1, _ = ag.get_RelaxationTensor(
                        ta, relaxation_theory=theory, **opts)
                    if getattr(RT1, "as_operators", False):
                        RT1.convert_2_tensor()
                    import inspect
                    has_legacy = "legacy" in inspect.signature(
                        RT1.secularize).parameters
                    for legacy in ((True, False) if has_legacy else (True,)):
                        with qr.eigenbasis_of(ham):
                            d1 = numpy.array(RT1.data)
                            import copy as _copy
                            X = _copy.deepcopy(RT1)
                            X.is_secular = False
                            if legacy:
                                X.secularize()
                            else:
                                X.secularize(legacy=False)
                            if getattr(X, "as_operators", False):
                                X.convert_2_tensor()
                            d2 = numpy.array(X.data)
                        n = d1.shape[-1]
                        m = T.sec_keep_mask(n)
                        sc = max(float(numpy.abs(d1).max()), 1e-300)
                        kept = float(numpy.abs((d2 - d1)[..., m]).max()) / sc
                        zero = float(numpy.abs(d2[..., ~m]).max()) / sc
                        tdf = T.trace_defect(d2) / sc
                        hdf = T.herm_defect(d2) / sc
                        ck.case("secular-built",
                                (s, theory, str(opts), legacy),
                                sample=dict(rp, legacy=legacy, kept=kept,
                                            zeroed=zero))
                        if kept > 1e-12 or zero > 0 or tdf > 1e-10 or \
                                hdf > 1e-10:
                            ck.violation("secular", "built:" + theory,
                                         dict(rp, legacy=legacy,
                                              kept_diff=kept, nonzero=zero,
                                              trace=tdf, herm=hdf), rp)

    # Lindblad forms with random operators and rates
    for s in range(6 if ck.thorough else 3):
        n = int(rng.randint(2, 5))
        ham = qr.Hamiltonian(data=_herm(rng, n))
        ops, rates = [], []
        for k in range(int(rng.randint(1, 4))):
            ops.append(qr.qm.Operator(data=rng.randn(n, n) *
                                      (rng.rand(n, n) < 0.5)))
            rates.append(float(rng.uniform(0.001, 0.1)))
        sbi = qr.qm.SystemBathInteraction(sys_operators=ops,
                                          rates=tuple(rates))
        for asop in (False, True):
            rp = dict(kind="lindblad", seed=ck.seed, sample=s, n=n, asop=asop)
            with ck.guarded("built-tensor", "Lindblad", rp, rp):
                lf = LindbladForm(ham, sbi, as_operators=asop)
                if asop:
                    lf.convert_2_tensor()
                for where in ("outside", "inside"):
                    if where == "inside":
                        with qr.eigenbasis_of(ham):
                            d = numpy.array(lf.data)
                    else:
                        d = numpy.array(lf.data)
                    sc = max(float(numpy.abs(d).max()), 1e-300)
                    ck.case("built-tensor", ("lindblad", s, asop, where))
                    if T.trace_defect(d) / sc > 1e-10:
                        ck.violation("trace-preserving", "built:Lindblad",
                                     dict(rp, where=where), rp)
                    if T.herm_defect(d) / sc > 1e-10:
                        ck.violation("hermiticity-preserving",
                                     "built:Lindblad", dict(rp, where=where),
                                     rp)

    ck.note("time-dependent combined Redfield-Foerster tensor with a "
            "coupling cut-off raises TypeError in the library (missing "
            "argument of td_foerster_rates); that configuration builds no "
            "tensor and is not sampled")
    ck.assume("TLC decides the identities for all K real, L complex of "
              "dimension 2 (3 thorough) by bilinearity; the real assembly "
              "loops are dimension generic (no special-casing of n >= 4 is "
              "assumed)")
    ck.assume("built tensors are sampled: N = 2..4 sites, overdamped baths, "
              "tolerance 1e-10 relative to max|R|; modified Redfield and "
              "non-equilibrium Foerster are not named by the property")
    return ck.finish()


def _herm(rng, n):
    a = rng.randn(n, n)
    return (a + a.T) / 2


def _judge(ck, name, got, want, rp):
    import numpy
    from harness import tensors as T
    got = numpy.asarray(got)
    ck.case(name, tuple(sorted((k, str(v)) for k, v in rp.items())))
    td, hd = T.trace_defect(got), T.herm_defect(got)
    if td != 0:
        ck.violation("trace-preserving", name, dict(rp, defect=td), rp)
    elif hd != 0:
        ck.violation("hermiticity-preserving", name, dict(rp, defect=hd), rp)
    elif not numpy.array_equal(got, want):
        ck.model_drift("%s differs from the specified tensor for %r (both "
                       "identities hold)" % (name, rp))
