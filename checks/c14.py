# -*- coding: utf-8 -*-
"""C14 — initial and thermal states are valid Boltzmann density matrices.

S  specs/ThermalState.tla: Boltzmann weights in a toy floating-point model
   with an explicit underflow threshold, the T = 0 branch, and the basis tag
   of a state defined in the exciton basis
T  TLC over all level patterns / temperatures in the bound: with energies
   taken relative to the lowest one the populations are always finite, the
   ratios are the Boltzmann ones, a level underflows only when negligible;
   T = 0 populates the lowest level; the exciton-defined state carries an
   exciton-basis tag.  Three negative controls (no shift; T = 0 -> first
   level; state wrapped outside the context) - the defects repaired in
   /repo - must be rejected.  The regimes (plain / partial underflow / all
   weights underflow without shift / T = 0) come from the spec.
H  representatives of every regime, on both sides of each boundary computed
   from the threshold 745.13 of exp(), for aggregates with and without
   vibrational modes and for molecules: every condition type and coupling
   limit; finite, Hermitian, PSD, unit trace, population ratios in the
   defining basis, T -> 0 limit, same physical state inside / outside
   eigenbasis_of(H), calls made inside energy-units contexts.
"""
import math

from harness.common import Check, MachineryFailure
from harness import registry as R

XMAX = 745.13          # exp(-x) underflows to 0.0 in float64 above this


def main():
    ck = Check("C14")
    import numpy
    import quantarhei as qr
    from quantarhei.core.units import kB_intK

    rng = numpy.random.RandomState(ck.seed)
    ck.tlc("ThermalState", "ThermalState.cfg", workers=8)
    for name, inv in (("shift", "Finite"), ("zerot", "ZeroTemperatureIsLimit"),
                      ("create", "SamePhysicalState")):
        ck.tlc("ThermalState", "ThermalState_defect_%s.cfg" % name,
               count=False, expect_violation=inv)

    def aggregate(energies, reorgs, J, modes=False):
        ta = qr.TimeAxis(0.0, 200, 2.0)
        with qr.energy_units("1/cm"):
            mols = []
            for k, (en, re) in enumerate(zip(energies, reorgs)):
                m = qr.Molecule([0.0, en])
                cf = qr.CorrelationFunction(ta, dict(
                    ftype="OverdampedBrownian", reorg=re, cortime=100.0,
                    T=300.0, matsubara=10))
                m.set_transition_environment((0, 1), cf)
                m.set_dipole(0, 1, [1.0, 0.3 * k, 0.0])
                if modes and k == 0:
                    mod = qr.Mode(250.0)
                    m.add_Mode(mod)
                    mod.set_nmax(0, 2)
                    mod.set_nmax(1, 2)
                    mod.set_HR(1, 0.2)
                mols.append(m)
            ag = qr.Aggregate(mols)
            for (i, j), v in J.items():
                ag.set_resonance_coupling(i, j, v)
        ag.build()
        ag._verif_reorgs_cm = list(reorgs)       # reference for the check
        return ag

    systems = [
        ("trimer", aggregate([12000.0, 12100.0, 12300.0], [50.0, 300.0, 100.0],
                             {(0, 1): 100.0, (1, 2): 60.0})),
        ("dimer", aggregate([12300.0, 12000.0], [30.0, 30.0], {(0, 1): 80.0})),
        ("vibronic-dimer", aggregate([12000.0, 12200.0], [40.0, 60.0],
                                     {(0, 1): 50.0}, modes=True)),
    ]

    # the same aggregates after they served other calculations: relaxation
    # tensors of every theory were requested from them first (those calls
    # protect / cut / recover the aggregate's Hamiltonian and must hand it
    # back as it was)
    for nm0, args in (("trimer", ([12000.0, 12100.0, 12300.0],
                                  [50.0, 300.0, 100.0],
                                  {(0, 1): 100.0, (1, 2): 60.0})),
                      ("dimer", ([12300.0, 12000.0], [30.0, 30.0],
                                 {(0, 1): 80.0}))):
        agp = aggregate(*args)
        tax = qr.TimeAxis(0.0, 200, 2.0)
        rp = dict(kind="prior-use", system=nm0)
        with ck.guarded("valid-state", "prior-use", rp, rp):
            import io
            import contextlib as _cl
            with _cl.redirect_stdout(io.StringIO()):
                agp.get_RelaxationTensor(
                    tax, relaxation_theory="standard_Redfield")
                agp.get_RelaxationTensor(
                    tax, relaxation_theory="standard_Foerster")
                agp.get_RelaxationTensor(
                    tax, relaxation_theory="combined_RedfieldFoerster",
                    coupling_cutoff=70.0 * R.CM2INT)
        systems.append((nm0 + "-after-tensors", agp))

    def temps(emin_int, spread_int):
        """representatives of every regime, both sides of each boundary"""
        ts = [0.0, 1.0e-3, 1.0, 5.0, 20.0, 30.0, 77.0, 300.0, 1000.0]
        for en in (emin_int, spread_int):
            if en > 0:
                tb = en / (XMAX * kB_intK)      # boundary temperature
                ts += [tb * 0.97, tb * 1.03]
        return sorted(set(ts))

    def valid(d, rp, clause_prefix, unit_trace=True):
        ok = True
        if not numpy.all(numpy.isfinite(d)):
            ck.violation("finite", clause_prefix, rp, rp)
            return False
        if numpy.abs(d - d.conj().T).max() > 1e-12:
            ck.violation("hermitian", clause_prefix, rp, rp)
            ok = False
        ev = numpy.linalg.eigvalsh((d + d.conj().T) / 2)
        if ev.min() < -1e-12 * max(1.0, abs(ev).max()):
            ck.violation("positive-semidefinite", clause_prefix,
                         dict(rp, min_eig=float(ev.min())), rp)
            ok = False
        if unit_trace and abs(numpy.trace(d) - 1.0) > 1e-12:
            ck.violation("unit-trace", clause_prefix,
                         dict(rp, trace=complex(numpy.trace(d)).real), rp)
            ok = False
        return ok

    observations = []      # one-event traces for specs/ThermalTrace.tla
    CAP = 5000

    def observe(pops, ens, T, rp, depth=0, same=True, exact=True):
        """projects one request onto the grid of ThermalState.tla"""
        pops = numpy.real(numpy.asarray(pops, dtype=complex))
        ens = numpy.asarray(ens, dtype=float)
        n = len(ens)
        if n < 2 or n > 12 or len(pops) != n:
            return
        fin = bool(numpy.all(numpy.isfinite(pops)))
        if T == 0.0:
            # grid: order-preserving ranks (ties kept), kT unused
            x = [int(numpy.sum(numpy.unique(ens) < v)) for v in ens]
            xmin, regime = 0, "zero"
        else:
            kt = kB_intK * T
            rel = (ens - ens.min()) / kt
            x = [int(min(math.floor(v), CAP)) for v in rel]
            xm = ens.min() / kt
            xmin = int(min(max(math.floor(xm), 0), CAP))
            near = lambda v: abs(v - 745.5) < 2.0
            if near(rel.max()) or near(xm) or ens.min() < 0:
                regime = ""                     # too close to a boundary
            else:
                part = rel.max() > 745.5
                allw = xm > 745.5
                regime = (("partial+all-without-shift" if allw else "partial")
                          if part else
                          ("all-underflow-without-shift" if allw else "plain"))
        pp = numpy.where(numpy.isfinite(pops), pops, 0.0)
        observations.append(([{
            "x": [xmin + v for v in x], "zeroT": T == 0.0, "depth": depth,
            "finite": fin, "exact": bool(exact),
            "zero": [bool(abs(v) <= (0.0 if exact else 1e-12)) for v in pp],
            "top": int(numpy.argmax(pp)) + 1,
            "ge": [[bool(pp[a] >= pp[b]) for b in range(n)]
                   for a in range(n)],
            "same": bool(same), "regime": regime}], rp))

    def ratios_ok(pops, ens, T, rp, clause_prefix, exact=True):
        """populations vs Boltzmann weights of `ens` (internal units);
        exact: the populations are as the builder computed them (not rotated
        into the defining basis by the harness)"""
        observe(pops, ens, T, rp, exact=exact)
        pops = numpy.real(numpy.asarray(pops))
        ens = numpy.asarray(ens, dtype=float)
        if T == 0.0:
            want = numpy.zeros(len(ens))
            want[int(numpy.argmin(ens))] = 1.0
            # ties: any distribution over the degenerate lowest levels
            low = numpy.isclose(ens, ens.min(), rtol=0, atol=1e-15)
            if abs(pops[low].sum() - 1.0) > 1e-12:
                ck.violation("zero-temperature-limit", clause_prefix,
                             dict(rp, pops=pops.tolist(),
                                  energies=ens.tolist()), rp)
                return False
            return True
        x = (ens - ens.min()) / (kB_intK * T)
        w = numpy.exp(-numpy.minimum(x, 800.0))
        want = w / w.sum()
        if numpy.abs(pops - want).max() > 1e-10:
            ck.violation("boltzmann-ratios", clause_prefix,
                         dict(rp, pops=pops.tolist(), want=want.tolist()), rp)
            return False
        return True

    for name, ag in systems:
        H = ag.get_Hamiltonian()
        Hs = numpy.array(H._data)
        n = Hs.shape[0]
        nb0 = int(ag.Nb[0])
        with qr.eigenbasis_of(H):
            Hx = numpy.array(H.data)
            SS = None
        ee, SS = numpy.linalg.eigh(Hs)
        exc = numpy.diag(Hx)[nb0:]
        site = numpy.real(numpy.diag(Hs))[nb0:]
        reorg = numpy.zeros(n - nb0)
        # a user looks the site reorganisation energies up under 1/cm first
        # (they must be the ones the baths were built with, and looking must
        # not influence what is computed later in other units)
        with qr.energy_units("1/cm"):
            for k0, want_cm in enumerate(ag._verif_reorgs_cm):
                got_cm = float(ag.sbi.get_reorganization_energy(k0))
                if abs(got_cm - want_cm) > 1e-9 * max(1.0, want_cm):
                    ck.violation("boltzmann-ratios",
                                 "site-reorganisation-energy",
                                 dict(system=name, site=k0, got=got_cm,
                                      want=want_cm), dict(system=name))
        for i in range(int(ag.Nb[1])):
            # reorganisation energy of the site the (vibronic) state sits on
            # (from the construction parameters, not from the library)
            reorg[i] = ag._verif_reorgs_cm[
                int(ag.elinds[nb0 + i]) - 1] * R.CM2INT
        emin = float(min(exc.min(), (site - reorg).min()))
        spread = float(max(exc.max() - exc.min(),
                           (site - reorg).max() - (site - reorg).min()))
        for T in temps(emin, spread):
            for cond, limit in (("thermal", "weak_coupling"),
                                ("thermal_excited_state", "weak_coupling"),
                                ("thermal_excited_state", "strong_coupling"),
                                ("impulsive_excitation", "weak_coupling")):
                rp = dict(kind="aggregate", system=name, T=T, condition=cond,
                          limit=limit)
                key = "%s:%s" % (cond, limit)
                with ck.guarded("valid-state", key, rp, rp):
                    rho = ag.get_DensityMatrix(
                        condition_type=cond, relaxation_theory_limit=limit,
                        temperature=T)
                    d_out = numpy.array(rho.data)       # site basis
                    ck.case("valid-state", (name, T, cond, limit),
                            sample=dict(rp, diag=numpy.real(numpy.diag(
                                d_out)).tolist()))
                    if not valid(d_out, rp, key,
                                 unit_trace=cond != "impulsive_excitation"):
                        continue
                    # populations in the defining basis
                    if cond == "thermal":
                        ratios_ok(numpy.diag(d_out), numpy.real(
                            numpy.diag(Hs)), T, rp, key)
                    elif limit == "weak_coupling" and \
                            cond == "thermal_excited_state":
                        dx = SS.T.dot(d_out).dot(SS)
                        off = dx - numpy.diag(numpy.diag(dx))
                        if numpy.abs(off).max() > 1e-10 or \
                                abs(dx[:nb0, :nb0]).max() > 1e-12:
                            ck.violation("defined-in-exciton-basis", key,
                                         dict(rp, offdiag=float(
                                             numpy.abs(off).max())), rp)
                        else:
                            ratios_ok(numpy.diag(dx)[nb0:], ee[nb0:], T, rp,
                                      key, exact=False)
                    elif limit == "strong_coupling" and \
                            cond == "thermal_excited_state":
                        off = d_out - numpy.diag(numpy.diag(d_out))
                        if numpy.abs(off).max() > 1e-12:
                            ck.violation("defined-in-site-basis", key, rp, rp)
                        else:
                            ratios_ok(numpy.diag(d_out)[nb0:], site - reorg,
                                      T, rp, key)
                    # same physical state when requested inside a context
                    if cond == "thermal_excited_state":
                        # one context, another operator's context, and both
                        # nestings of two non-commuting ones
                        nd = H.dim
                        Bm = numpy.random.RandomState(nd).randn(nd, nd)
                        A = qr.qm.SelfAdjointOperator(data=(Bm + Bm.T) / 2)
                        # (and a genuinely complex Hermitian one: its
                        # eigenvector matrix is unitary, not orthogonal)
                        Bi = numpy.random.RandomState(nd + 17).randn(nd, nd)
                        Ac = qr.qm.SelfAdjointOperator(
                            data=(Bm + Bm.T) / 2 + 1j * (Bi - Bi.T) / 2)
                        for cname, ops in (("H", [H]), ("A", [A]),
                                           ("A>H", [A, H]), ("H>A", [H, A]),
                                           ("Ac", [Ac]), ("H>Ac", [H, Ac])):
                            import contextlib
                            with contextlib.ExitStack() as stack:
                                for op in ops:
                                    stack.enter_context(qr.eigenbasis_of(op))
                                r_in = ag.get_DensityMatrix(
                                    condition_type=cond,
                                    relaxation_theory_limit=limit,
                                    temperature=T)
                            d_in = numpy.array(r_in.data)
                            e = float(numpy.abs(d_in - d_out).max())
                            ck.case("same-state-inside-outside",
                                    (name, T, limit, cname),
                                    sample=dict(rp, contexts=cname, err=e))
                            if limit == "weak_coupling" and \
                                    numpy.all(numpy.isfinite(d_in)):
                                dxi = SS.T.dot(d_in).dot(SS)
                                observe(numpy.diag(dxi)[nb0:], ee[nb0:], T,
                                        dict(rp, contexts=cname),
                                        depth=len(ops), same=e <= 1e-10,
                                        exact=False)
                            if e > 1e-10:
                                ck.violation(
                                    "same-state-inside-outside",
                                    "%s:requested-inside-context:%s" % (
                                        limit, "nested" if len(ops) > 1
                                        else "single"),
                                    dict(rp, contexts=cname, err=e), rp)
        # thermal reduced density matrix of the aggregate, also inside units
        for u in ("int", "1/cm", "eV"):
            rp = dict(kind="aggregate-thermal-rdm", system=name, units=u)
            with ck.guarded("valid-state", "thermal-rdm", rp, rp):
                with qr.energy_units(u):
                    r = ag.get_thermal_ReducedDensityMatrix()
                d = numpy.array(r.data)
                ck.case("thermal-rdm", (name, u))
                if valid(d, rp, "thermal-rdm"):
                    dx = SS.T.dot(d).dot(SS)
                    ratios_ok(numpy.diag(dx), ee, ag.get_temperature(), rp,
                              "thermal-rdm:units=" + u, exact=False)

    # ---------------------------------------------------------- molecules
    for gap, T in ((200.0, 300.0), (200.0, 77.0), (50.0, 5.0),
                   (12000.0, 300.0), (12000.0, 10.0), (1.0, 1.0)):
        for u in ("int", "1/cm", "eV", "THz"):
            rp = dict(kind="molecule", gap_cm=gap, T=T, units=u)
            with ck.guarded("valid-state", "molecule", rp, rp):
                ta = qr.TimeAxis(0.0, 100, 1.0)
                with qr.energy_units("1/cm"):
                    m = qr.Molecule([0.0, gap])
                    cf = qr.CorrelationFunction(ta, dict(
                        ftype="OverdampedBrownian", reorg=10.0, cortime=100.0,
                        T=T, matsubara=5))
                    m.set_transition_environment((0, 1), cf)
                with qr.energy_units(u):
                    r = m.get_thermal_ReducedDensityMatrix()
                d = numpy.array(r.data)
                ck.case("molecule-thermal", (gap, T, u), sample=dict(
                    rp, pops=numpy.real(numpy.diag(d)).tolist()))
                if valid(d, rp, "molecule"):
                    ratios_ok(numpy.diag(d), [0.0, gap * R.CM2INT], T, rp,
                              "molecule:units=" + ("int" if u == "int"
                                                   else "non-int"))

    # ------------------------------------------------ observations vs the spec
    by_n = {}
    for tr, rp in observations:
        by_n.setdefault(len(tr[0]["x"]), []).append((tr, rp))
    seen_regimes = set()
    for n, lst in sorted(by_n.items()):
        seen_regimes |= {tr[0]["regime"] for tr, _ in lst}
        rej = ck.validate_traces("ThermalTrace", "ThermalTrace_%d.cfg" % n,
                                 [tr for tr, _ in lst], invariant=None)
        if rej:
            tr, rp = lst[rej["tid"] - 1]
            ck.violation("observation-conforms-to-ThermalState",
                         "rejected:" + str(rej["violated"]),
                         dict(rp, observation=tr[0],
                              violated=rej["violated"]), rp)
    if observations and not {"zero", "plain", "partial"} <= seen_regimes:
        raise MachineryFailure("observations do not reach the regimes of the "
                               "specification: %s" % sorted(seen_regimes))
    # negative controls of the binding: corrupted observations are rejected
    good = {"x": [0, 3, 900], "zeroT": False, "depth": 0, "finite": True,
            "exact": True,
            "zero": [False, False, True], "top": 1,
            "ge": [[True, True, True], [False, True, True],
                   [False, False, True]], "same": True, "regime": "partial"}
    n0 = ck.traces_validated
    if ck.validate_traces("ThermalTrace", "ThermalTrace_3.cfg", [[good]]):
        raise MachineryFailure("a correct observation is rejected")
    for field, val, inv in (("zero", [False, False, False], "ObsZeroPattern"),
                            ("ge", [[True, False, True], [True, True, True],
                                    [False, False, True]], "ObsOrder"),
                            ("finite", False, "ObsFinite"),
                            ("same", False, "ObsSameState"),
                            ("regime", "plain", "ObsRegime")):
        bad = dict(good)
        bad[field] = val
        rej = ck.validate_traces("ThermalTrace", "ThermalTrace_3.cfg", [[bad]])
        if not rej or rej["violated"] != inv:
            raise MachineryFailure("corrupted observation (%s) not rejected "
                                   "by %s: %s" % (field, inv, rej))
    ck.traces_validated = n0

    ck.assume("underflow threshold of exp() in float64: 745.13; boundary "
              "temperatures E/(745.13 kB) are straddled by +-3 %")
    ck.assume("regimes and representatives follow ThermalState.tla; systems: "
              "a trimer whose reorganisation energies reorder the stripped "
              "site energies, a dimer, a dimer with a vibrational mode, "
              "two-level molecules")
    return ck.finish()
