# -*- coding: utf-8 -*-
"""C19 — two-dimensional response storage conserves what was added.

S  specs/TwoDStorage.tla (+ TwoDStorageTrace.tla)
T  TLC exhaustive over all histories (add at every level, dtype, tag;
   set_resolution to every level) in the bound, every conservation invariant
   in every state; -simulate behaviours
H  spec->code: behaviours replayed on a real TwoDResponse with 1x1 arrays;
   after every call every admissible view is read back and compared with an
   independent ledger of what the real object accepted (the property) and
   with the specified views (model drift);
   code->spec: random long histories recorded from the real object with the
   complete stored dictionary and validated by TLC.
"""
import os
import copy
import tempfile
import shutil

from harness.common import Check, MachineryFailure
from harness import tlaparse

LEVELS = ["off", "signals", "processes", "types", "pathways"]
TYPES = ["R1g", "R2g", "R3g", "R4g", "R1fs", "R2fs", "R3fs", "R4fs"]
PROCS = {"GSB": ["R1g", "R2g"], "SE": ["R3g", "R4g"],
         "ESA": ["R1fs", "R2fs"], "DC": ["R3fs", "R4fs"]}
SIGS = {"REPH": ["R2g", "R3g", "R1fs"], "NONR": ["R1g", "R4g", "R2fs"],
        "DCS": ["R3fs", "R4fs"]}


def main():
    ck = Check("C19")
    import numpy
    import quantarhei as qr
    from quantarhei.spectroscopy.twod2 import TwoDResponse
    from quantarhei.core.valueaxis import ValueAxis

    SIGNAME = {"REPH": qr.signal_REPH, "NONR": qr.signal_NONR,
               "DCS": qr.signal_DC, "total": qr.signal_TOTL}

    def code_dtype(d):
        return SIGNAME.get(d, d)

    BSHAPE = (numpy.arange(15).reshape(3, 5) + 1) * (1.0 + 0.5j) * \
        numpy.array([[1, -1, 2, 1j, 3]])

    class Real:
        """A real TwoDResponse plus an independent ledger of what it
        accepted."""

        def __init__(self):
            self.o = TwoDResponse()
            self.o.set_axis_1(ValueAxis(0.0, 1, 1.0))
            self.o.set_axis_3(ValueAxis(0.0, 1, 1.0))
            # a shadow object fed with the same history on RECTANGULAR
            # complex arrays (value x B): every view of it must be the
            # scalar view times B
            self.o2 = TwoDResponse()
            self.o2.set_axis_1(ValueAxis(0.0, 3, 1.0))
            self.o2.set_axis_3(ValueAxis(0.0, 5, 2.0))
            self.shadow = None
            self.led = {}
            self.hist = []

        def snapshot(self):
            return copy.deepcopy(getattr(self.o, "_d__data", None))

        def add(self, level, dtype, tag, x):
            arr = numpy.array([[x]], dtype=qr.COMPLEX)
            before = self.snapshot()
            was_init = self.o.storage_initialized
            res_before = self.o.storage_resolution
            crash = None
            try:
                self.o._add_data(arr, resolution=LEVELS[level],
                                 dtype=code_dtype(dtype),
                                 tag=None if tag == "none" else tag)
                ok = True
            except Exception as ex:
                ok = False
                crash = None if type(ex) is Exception else type(ex).__name__
            try:
                self.o2._add_data(x * BSHAPE, resolution=LEVELS[level],
                                  dtype=code_dtype(dtype),
                                  tag=None if tag == "none" else tag)
                ok2 = True
            except Exception:
                ok2 = False
            if ok2 != ok and self.shadow is None:
                self.shadow = "addition %r accepted=%s for 1x1 data, %s for " \
                    "3x5 data" % ([level, dtype, tag], ok, ok2)
            self.hist.append(["add", level, dtype, tag, x, ok])
            if crash:
                # (the library refuses with a plain Exception; anything else
                # is an operation that broke down, not a refusal)
                return ok, "crash: addition raised " + crash
            if ok:
                key = (level, dtype, tag)
                self.led[key] = self.led.get(key, 0) + x
            else:
                after = self.snapshot()
                if was_init and (not _same(before, after) or
                                 self.o.storage_resolution != res_before):
                    return ok, "refused addition changed the stored data"
            return ok, None

        def setres(self, new):
            before = self.snapshot()
            res_before = self.o.storage_resolution
            crash = None
            try:
                self.o.set_resolution(LEVELS[new])
                ok = True
            except Exception as ex:
                ok = False
                crash = None if type(ex) is Exception else type(ex).__name__
            try:
                self.o2.set_resolution(LEVELS[new])
                ok2 = True
            except Exception:
                ok2 = False
            if ok2 != ok and self.shadow is None:
                self.shadow = "set_resolution(%s) accepted=%s for 1x1 data, " \
                    "%s for 3x5 data" % (LEVELS[new], ok, ok2)
            self.hist.append(["setres", new, ok])
            if crash:
                return ok, "crash: set_resolution raised " + crash
            if not ok:
                if (not _same(before, self.snapshot()) or
                        self.o.storage_resolution != res_before):
                    return ok, "refused set_resolution changed the storage"
            return ok, None

        # ledger sums -------------------------------------------------------
        def led_type(self, t):
            return sum(v for (l, d, g), v in self.led.items() if d == t)

        def led_total(self):
            return sum(self.led.values())

        def led_proc(self, p):
            return (sum(self.led_type(t) for t in PROCS[p]) +
                    sum(v for (l, d, g), v in self.led.items()
                        if l == 2 and d == p))

        def led_sig(self, s):
            return (sum(self.led_type(t) for t in SIGS[s]) +
                    sum(v for (l, d, g), v in self.led.items()
                        if l == 1 and d == s))

        def led_path(self, t, g):
            return sum(v for (l, d, gg), v in self.led.items()
                       if d == t and gg == g)

        # views ---------------------------------------------------------------
        def view(self, flag):
            self.o.set_data_flag(flag)
            d = self.o.d__data
            if d is None:
                return 0
            d = numpy.asarray(d)
            if d.shape != (1, 1):
                raise MachineryFailure("unexpected view shape %r" % (d.shape,))
            z = complex(d[0, 0])
            # the same view of the rectangular shadow
            if self.shadow is None and self.o2.storage_initialized:
                self.o2.set_data_flag(flag)
                d2 = self.o2.d__data
                d2 = numpy.zeros((3, 5)) if d2 is None else numpy.asarray(d2)
                if d2.shape != (3, 5) or \
                        numpy.abs(d2 - z * BSHAPE).max() > 1e-12:
                    self.shadow = "view %r of 3x5 complex data is not the " \
                        "1x1 view times the array" % (flag,)
            if z.imag != 0 or z.real != int(z.real):
                return z
            return int(z.real)

        def check_views(self):
            """Compares every admissible view with the ledger. Returns a list
            of (clause, detail)."""
            bad = []
            o = self.o
            if not o.storage_initialized:
                return bad, {}
            res = LEVELS.index(o.storage_resolution)
            views = {}
            tot = self.view(code_dtype("total"))
            views["total"] = tot
            if tot != self.led_total():
                bad.append(("total", dict(view=tot, added=self.led_total())))
            if res >= 3:
                for t in TYPES:
                    v = self.view(t)
                    views[t] = v
                    if v != self.led_type(t):
                        bad.append(("type-view", dict(type=t, view=v,
                                                      added=self.led_type(t))))
            if res >= 2:
                for p in PROCS:
                    v = self.view(p)
                    views[p] = v
                    if v != self.led_proc(p):
                        bad.append(("process-view", dict(
                            process=p, view=v, added=self.led_proc(p))))
            if res in (1, 3, 4):
                for s in SIGS:
                    v = self.view(code_dtype(s))
                    views[s] = v
                    if v != self.led_sig(s):
                        bad.append(("signal-view", dict(
                            signal=s, view=v, added=self.led_sig(s))))
            if res == 4:
                for (t, g) in o.get_all_tags():
                    if g is None:
                        # the untagged entry cannot be addressed through the
                        # flag (tag None means "all pathways of the type")
                        continue
                    v = self.view([t, g])
                    gg = "none" if g is None else g
                    views[t + "/" + gg] = v
                    if v != self.led_path(t, gg):
                        bad.append(("pathway-view", dict(
                            type=t, tag=gg, view=v,
                            added=self.led_path(t, gg))))
            if self.shadow is not None:
                bad.append(("array-shaped-data", dict(what=self.shadow)))
                self.shadow = None
            return bad, views

        def stored(self):
            """Projection of the stored dictionary for the trace spec."""
            o = self.o
            res = LEVELS.index(o.storage_resolution)
            out = dict(res=res, init=bool(o.storage_initialized), paths=[],
                       types=[], procs=[], sigs=[], tot=[])
            d = getattr(o, "_d__data", None)
            if not o.storage_initialized or d is None:
                return out
            inv = {v: k for k, v in SIGNAME.items()}

            def val(a):
                if a is None:
                    return 0
                z = complex(numpy.asarray(a)[0, 0])
                if z.imag != 0 or z.real != int(z.real):
                    raise MachineryFailure("non-integer stored value")
                return int(z.real)
            if res == 4:
                for t, piece in d.items():
                    for g, a in piece.items():
                        out["paths"].append(
                            [t, "none" if g is None else g, val(a)])
            elif res == 3:
                out["types"] = [[t, val(a)] for t, a in d.items()]
            elif res == 2:
                out["procs"] = [[p, val(a)] for p, a in d.items()]
            elif res == 1:
                # (a key that is no signal name is reported as stored)
                out["sigs"] = [[inv.get(s, str(s)), val(a)]
                               for s, a in d.items()]
            else:
                out["tot"] = [val(a) for k, a in d.items()]
            return out

    def _same(a, b):
        if type(a) != type(b):
            return False
        if isinstance(a, dict):
            return (set(a.keys()) == set(b.keys()) and
                    all(_same(a[k], b[k]) for k in a))
        if a is None:
            return True
        return numpy.array_equal(numpy.asarray(a), numpy.asarray(b))

    def keyof(real):
        """Classification of a conservation failure by the history shape."""
        lv = sorted({h[1] for h in real.hist if h[0] == "add" and h[5]})
        return "accepted-add-levels:" + ",".join(map(str, lv))

    # ------------------------------------------------------------------ TLC
    cfg = "TwoDStorage_large.cfg" if ck.thorough else "TwoDStorage.cfg"
    res = ck.tlc("TwoDStorage", cfg, coverage=True, workers=16)
    for act in ("AddAccepted", "AddRefused", "SetResolution"):
        if res["coverage"].get(act, (0, 0))[1] == 0:
            raise MachineryFailure("vacuous: action %s never taken" % act)
    ck.tlc("TwoDStorage", "TwoDStorage_defect.cfg", count=False,
           expect_violation="TotalConserved")

    # -------------------------------------------------- spec -> code replay
    tmp = tempfile.mkdtemp(prefix="c19_")
    try:
        nsim = 3000 if ck.thorough else 400
        pref = os.path.join(tmp, "tr")
        ck.tlc("TwoDStorage", "TwoDStorage_sim.cfg",
               simulate="file=%s,num=%d" % (pref, nsim), depth=9, workers=1,
               seed=ck.seed + 3, count=False)
        behs = tlaparse.load_behaviours(pref)
    finally:
        shutil.rmtree(tmp, ignore_errors=True)
    if len(behs) < nsim // 2:
        raise MachineryFailure("too few behaviours")
    ndrift = 0
    for beh in behs:
        real = Real()
        for act, st in beh[1:]:
            a = st["_args"]
            if act in ("AddAccepted", "AddRefused"):
                ok, why = real.add(a[0], a[1], a[2], a[3])
                want = act == "AddAccepted"
            elif act == "SetResolution":
                ok, why = real.setres(a[0])
                want = st["last"] == "ok"
            else:
                raise MachineryFailure("unknown action %s" % act)
            if why:
                ck.violation("operation-breaks-down" if why.startswith(
                    "crash") else "refusal-keeps-data", "refusal", dict(
                    history=real.hist, why=why), dict(history=real.hist))
                break
            bad, views = real.check_views()
            if bad:
                ck.violation(bad[0][0], keyof(real), dict(
                    history=real.hist, failures=bad[:4]),
                    dict(history=real.hist))
                break
            if ok != want or (LEVELS.index(real.o.storage_resolution)
                              != st["res"]):
                ndrift += 1
                if ndrift <= 3:
                    ck.model_drift("acceptance/resolution differs from the "
                                   "spec after %r" % (real.hist,))
                break
        ck.case("history-replay", tuple(map(tuple, real.hist)),
                nontrivial=sum(1 for h in real.hist if h[-1]) >= 2,
                sample=real.hist)
        ck.traces_validated += 1
    if ndrift:
        ck.note("%d behaviours stopped at a model-drift point" % ndrift)

    # ---------------------------------------- code -> spec trace validation
    rng = ck.rng
    ntr = 600 if ck.thorough else 120
    traces = []
    reals = []
    for t in range(ntr):
        real = Real()
        tr = [dict(ev="init")]
        for k in range(rng.randint(3, 14)):
            if rng.random() < 0.75:
                level = rng.choice([4, 4, 4, 3, 3, 2, 1, 0])
                if rng.random() < 0.8:
                    dtype = {4: rng.choice(TYPES[:4]), 3: rng.choice(TYPES[:4]),
                             2: rng.choice(list(PROCS)),
                             1: rng.choice(list(SIGS)), 0: "total"}[level]
                    tag = rng.choice(["a", "b", "c"]) if level == 4 else "none"
                else:
                    dtype = rng.choice(TYPES[:4] + list(PROCS) + list(SIGS) +
                                       ["total"])
                    tag = rng.choice(["a", "b", "c", "none"])
                x = rng.choice([1, 2, 5])
                ok, why = real.add(level, dtype, tag, x)
                ev = dict(ev="add", level=level, dtype=dtype, tag=tag, x=x,
                          ok=ok)
            else:
                new = rng.choice([4, 3, 3, 2, 1, 0])
                ok, why = real.setres(new)
                ev = dict(ev="setres", new=new, ok=ok)
            ev.update(real.stored())
            tr.append(ev)
            if why:
                ck.violation("operation-breaks-down" if why.startswith(
                    "crash") else "refusal-keeps-data", "refusal", dict(
                    history=real.hist, why=why), dict(history=real.hist))
                break
            bad, views = real.check_views()
            if bad:
                ck.violation(bad[0][0], keyof(real), dict(
                    history=real.hist, failures=bad[:4]),
                    dict(history=real.hist))
                break
        traces.append(tr)
        reals.append(real)
        ck.case("history-trace", tuple(map(tuple, real.hist)),
                nontrivial=sum(1 for h in real.hist if h[-1]) >= 2,
                sample=real.hist)
    rej = ck.validate_traces("TwoDStorageTrace", "TwoDStorageTrace.cfg",
                             traces, workers=8)
    if rej:
        tr = traces[rej["tid"] - 1]
        real = reals[rej["tid"] - 1]
        if rej["violated"] == "Accepting":
            ck.model_drift("recorded history not explained by the spec at "
                           "event %s: %r" % (rej["l"], real.hist))
        else:
            ck.violation("trace:" + str(rej["violated"]), keyof(real),
                         dict(history=real.hist, event_index=rej["l"],
                              state=rej["state"][:500]),
                         dict(history=real.hist))

    # negative control of the binding
    bad = [[dict(ev="init"),
            dict(ev="add", level=4, dtype="R1g", tag="a", x=1, ok=True, res=4,
                 init=True, paths=[["R1g", "a", 2]], types=[], procs=[],
                 sigs=[], tot=[])]]
    n0 = ck.traces_validated
    if not ck.validate_traces("TwoDStorageTrace", "TwoDStorageTrace.cfg", bad):
        raise MachineryFailure("corrupted trace accepted: binding is vacuous")
    ck.traces_validated = n0

    ck.assume("the specification speaks about 1x1 arrays with small integer "
              "values; every replayed history is also run on a shadow object "
              "holding 3x5 complex arrays (value x a fixed array) whose "
              "views must be the 1x1 views times that array; aliasing of "
              "caller arrays is not covered")
    ck.assume("TLC bound: 3 addable types, 2 tags, value 1, histories <= 4 "
              "(5 thorough); simulated histories up to 8 calls, recorded "
              "ones up to 14 calls")
    return ck.finish()
