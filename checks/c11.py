# -*- coding: utf-8 -*-
"""C11 — linear spectra match the Fourier integral and symmetry relations.

S  specs/AbsMap.tla: the index pipeline hfft -> fftshift -> reversal -> cut
   composed with the frequency axis that is returned with the data
T  TLC for Nt = 8..40 and every tone inside the window: the returned axis
   assigns to the landing index of a line its transition frequency (exactly
   on the grid); the pipeline hfft(at) + flipud (2 Nt - 2 points against an
   axis of 2 Nt points; repaired in /repo) must be rejected
H  landing index of real spectra of a bath-free monomer at grid tones vs the
   specified index; sampled aggregates (N = 1..4, overdamped baths, with and
   without supplied relaxation tensor): the returned spectrum (raw) against
   the direct Fourier integral sum_a |d_a|^2 exp(-g_a(t) - i w_a t) evaluated
   by the reference on the returned axis, scaling with s^2, invariance under
   a common rotation and under relabelling, integral proportional to the sum
   of squared dipoles whatever the couplings, Hamiltonian / dipole operator /
   relaxation tensor unchanged by the calculation.
"""
import os
import math
import itertools

from harness.common import Check, MachineryFailure
from harness import tensors as T
from harness import registry as R


def main():
    ck = Check("C11")
    import numpy
    import quantarhei as qr

    rng = numpy.random.RandomState(ck.seed)
    ck.tlc("AbsMap", "AbsMap.cfg", workers=8)
    # unbounded: TLAPS proves ExactOnGrid for EVERY Nt and every tone in the
    # window; TLC checks that the proved operators are the model-checked ones
    ck.tlc("AbsMapLink", "AbsMapLink.cfg", count=False, workers=4)
    proved, total = ck.tlaps("AbsMapProof")
    if proved != total or total < 50:
        raise MachineryFailure("TLAPS: %d of %d obligations of AbsMapProof "
                               "proved" % (proved, total))
    ck.note("TLAPS: all %d obligations of AbsMapProof proved (line lands on "
            "its axis index for every Nt)" % total)
    if ck.thorough:
        bad, tot = ck.tlaps("AbsMapProof", mutate=(
            "Reversed(n, k) == (Flipped(n, k) + 1) % M(n)",
            "Reversed(n, k) == Flipped(n, k)"))
        if bad == tot:
            raise MachineryFailure("TLAPS proved the displaced pipeline")
    ck.tlc("AbsMap", "AbsMap_asis.cfg", count=False,
           expect_violation="LineOnItsEnergy")

    # ------------------------- landing index of grid tones (bath-free monomer)
    for Nt in ([16, 25, 40, 64, 101] if ck.thorough else [16, 25, 40]):
        for dt in (1.0, 2.5):
            ta = qr.TimeAxis(0.0, Nt, dt)
            dw = 2 * math.pi / (2 * Nt * dt)          # step of returned axis
            rwa = 2.0
            for kappa in range(-(Nt // 2) + 3, Nt // 2 - 3, max(1, Nt // 8)):
                om = rwa + kappa * dw
                rp = dict(kind="tone", Nt=Nt, dt=dt, kappa=kappa)
                with ck.guarded("line-on-its-energy", "tone", rp, rp):
                    with qr.energy_units("int"):
                        mol = qr.Molecule([0.0, om])
                        mol.set_dipole(0, 1, [1.0, 0.0, 0.0])
                        calc = qr.AbsSpectrumCalculator(ta, system=mol)
                        if kappa % 2:
                            # the rotating-wave frequency is specified again
                            # on a calculator that was bootstrapped before
                            calc.bootstrap(rwa=0.8 * rwa)
                        calc.bootstrap(rwa=rwa)
                        sp = calc.calculate(raw=True)
                        ax = numpy.array(sp.axis.data)
                        d = numpy.array(sp.data)
                    p = int(numpy.argmax(d))
                    want_p = kappa + Nt - Nt // 2       # AbsMap: exact on grid
                    err = (ax[p] - om) / dw              # in grid steps
                    ck.case("line-on-its-energy", (Nt, dt, kappa),
                            sample=dict(rp, landing=p, specified=want_p,
                                        error_in_grid_steps=float(err)))
                    ck.traces_validated += 1
                    if abs(err) > 0.5 + 1e-9:
                        ck.violation(
                            "line-on-its-energy",
                            "abs-landing-offset:%+d" % int(round(err)),
                            dict(rp, landing=p, axis_value=float(ax[p]),
                                 transition=om,
                                 error_in_grid_steps=float(err)), rp)
                    elif p != want_p:
                        ck.model_drift("landing index %d differs from the "
                                       "specified %d (line still within the "
                                       "grid resolution)" % (p, want_p))

    # ------------- calculator state over call histories (AbsCalc.tla)
    # bootstrap / new realisation of the system / calculate in any order:
    # the returned axis carries the transition energy at the line maximum
    ck.tlc("AbsCalc", "AbsCalc.cfg", workers=4)
    ck.tlc("AbsCalc", "AbsCalc_cumulative.cfg", count=False,
           expect_violation="LineOnItsEnergy")
    import tempfile
    import shutil
    from harness import tlaparse
    dtmp = tempfile.mkdtemp(prefix="c11ac_")
    try:
        pref = os.path.join(dtmp, "tr")
        nsim = 120 if ck.thorough else 30
        ck.tlc("AbsCalc", "AbsCalc_sim.cfg",
               simulate="file=%s,num=%d" % (pref, nsim), depth=8, workers=1,
               seed=ck.seed + 9, count=False)
        behs = tlaparse.load_behaviours(pref)
    finally:
        shutil.rmtree(dtmp, ignore_errors=True)
    if len(behs) < nsim // 2:
        raise MachineryFailure("too few AbsCalc behaviours")
    NtA, dtA = 16, 1.0                           # Half = Nt // 2 = 8
    dwA = 2 * math.pi / (2 * NtA * dtA)
    for bi, beh in enumerate(behs):
        taA = qr.TimeAxis(0.0, NtA, dtA)
        om0 = beh[0][1]["om"]
        hist = [["system", om0]]
        rp = dict(kind="calculator-history", history=hist)
        with ck.guarded("line-on-its-energy", "calculator-history", rp, rp):
            with qr.energy_units("int"):
                mol = qr.Molecule([0.0, om0 * dwA])
                mol.set_dipole(0, 1, [1.0, 0.0, 0.0])
                calc = qr.AbsSpectrumCalculator(taA, system=mol)
                ncalc = 0
                for act, st in beh[1:]:
                    a = st["_args"]
                    if act == "Bootstrap":
                        hist.append(["bootstrap", a[0]])
                        calc.bootstrap(rwa=a[0] * dwA)
                    elif act == "NewSystem":
                        hist.append(["system", a[0]])
                        mol.set_energy(1, a[0] * dwA)
                    elif act == "Calculate":
                        hist.append(["calculate"])
                        sp = calc.calculate(raw=True)
                        ax = numpy.array(sp.axis.data)
                        pk = int(numpy.argmax(numpy.array(sp.data)))
                        got = float(ax[pk]) / dwA
                        ncalc += 1
                        if abs(got - st["peak"]) > 0.5 + 1e-9:
                            ck.violation(
                                "line-on-its-energy",
                                "calculator-history:offset:%+d" % int(round(
                                    got - st["peak"])),
                                dict(history=[list(h) for h in hist],
                                     axis_value_in_steps=got,
                                     transition_in_steps=st["peak"]),
                                dict(kind="calculator-history",
                                     history=[list(h) for h in hist]))
                            break
                    else:
                        raise MachineryFailure("unknown action " + act)
        ck.case("calculator-history", (bi, str(hist)), nontrivial=ncalc > 0
                and sum(1 for h in hist if h[0] == "bootstrap") > 1,
                sample=dict(history=[list(h) for h in hist]))
        ck.traces_validated += 1

    # --------------------------------------------------- sampled aggregates
    # (baths handed over as tabulated values that declare the same
    # reorganisation energy and temperature on every site: switched on for
    # every third system below)
    tabulated = [False]

    def build(N, Ecm, Jcm, dips, reorg, cort, Nt=600, dt=2.0, scale=1.0,
              perm=None):
        ta = qr.TimeAxis(0.0, Nt, dt)
        order = list(range(N)) if perm is None else list(perm)
        cfs = []
        with qr.energy_units("1/cm"):
            mols = []
            for k in order:
                m = qr.Molecule([0.0, float(Ecm[k])])
                m.set_dipole(0, 1, list(scale * dips[k]))
                cf = qr.CorrelationFunction(ta, dict(
                    ftype="OverdampedBrownian", reorg=float(reorg[k]),
                    cortime=float(cort[k]), T=300.0, matsubara=20))
                if tabulated[0]:
                    cf = qr.CorrelationFunction(ta, dict(
                        ftype="Value-defined", reorg=float(reorg[0]),
                        T=300.0), values=numpy.array(cf.data,
                                                     dtype=complex))
                cfs.append(numpy.array(cf.data, dtype=complex))
                m.set_transition_environment((0, 1), cf)
                mols.append(m)
            ag = qr.Aggregate(mols)
            for a in range(N):
                for b in range(a + 1, N):
                    ag.set_resonance_coupling(a, b, float(
                        Jcm[order[a], order[b]]))
        ag.build()
        # the functions the sites were given (site order of this aggregate)
        ag._verif_cfs = cfs
        return ag, ta

    def spectrum(ag, ta, raw=True, tensor=False):
        calc_kw = {}
        HH = ag.get_Hamiltonian()
        if tensor:
            RT, H2 = ag.get_RelaxationTensor(
                ta, relaxation_theory="standard_Redfield",
                time_dependent=(tensor == "td"))
            calc_kw = dict(relaxation_tensor=RT, effective_hamiltonian=H2,
                           before=numpy.array(RT._data).copy())
        calc = qr.AbsSpectrumCalculator(
            ta, system=ag, **{k: v for k, v in calc_kw.items()
                              if k != "before"})
        with qr.energy_units("1/cm"):
            if rebootstrap[0] % 2:
                calc.bootstrap(rwa=11500.0)
            rebootstrap[0] += 1
            calc.bootstrap(rwa=12000.0)
        sp = calc.calculate(raw=raw)
        with qr.energy_units("int"):
            return numpy.array(sp.axis.data), numpy.array(sp.data), calc_kw

    # every second calculator is bootstrapped twice (rwa respecified)
    rebootstrap = [0]

    def reference(ag, ta, ax, gam=None):
        """direct Fourier integral on the returned axis"""
        H = numpy.array(ag.get_Hamiltonian()._data)
        D = numpy.array(ag.get_TransitionDipoleMoment()._data)
        ee, SS = numpy.linalg.eigh(H)
        N = H.shape[0] - 1
        t = ta.data
        dt = ta.step
        sbi = ag.get_SystemBathInteraction()
        out = numpy.zeros(len(ax))
        for a in range(1, N + 1):
            dvec = numpy.einsum('k,kx->x', SS[1:, a], D[0, 1:, :])
            d2 = float(numpy.dot(dvec, dvec))
            ct = numpy.zeros(len(t), dtype=complex)
            for k in range(N):
                ct += (SS[k + 1, a] ** 4) * ag._verif_cfs[k]
            lam = numpy.concatenate([[0], numpy.cumsum(
                (ct[1:] + ct[:-1]) / 2) * dt])
            g = numpy.concatenate([[0], numpy.cumsum(
                (lam[1:] + lam[:-1]) / 2) * dt])
            at = numpy.exp(-g - 1j * (ee[a] - ee[0]) * t)
            if gam is not None:
                at = at * numpy.exp(gam[a] * t)
            for i, w in enumerate(ax):
                ph = at * numpy.exp(1j * w * t)
                out[i] += d2 * (numpy.real(ph[0]) + 2 * numpy.real(
                    ph[1:].sum())) * dt
        return out

    nsys = 6 if ck.thorough else 3
    for s in range(nsys):
        N = 1 + (s % 4)
        Ecm = 12000.0 + rng.uniform(-150, 150, size=N)
        Jcm = rng.uniform(-80, 80, size=(N, N))
        Jcm = (Jcm + Jcm.T) / 2
        dips = rng.randn(N, 3)
        reorg = rng.uniform(20, 60, size=N)
        cort = rng.uniform(50, 120, size=N)
        tabulated[0] = (s % 3 == 2)
        if tabulated[0]:
            reorg = numpy.full(N, reorg[0])
        rp = dict(kind="aggregate", seed=ck.seed, system=s, N=N,
                  tabulated_baths=bool(tabulated[0]))
        with ck.guarded("fourier-integral", "aggregate", rp, rp):
            # even and odd lengths of the time axis
            Nt_s = (600, 601, 451, 750)[s % 4]
            rp["Nt"] = Nt_s
            ag, ta = build(N, Ecm, Jcm, dips, reorg, cort, Nt=Nt_s)
            HH = ag.get_Hamiltonian()
            DD = ag.get_TransitionDipoleMoment()
            fp0 = (numpy.array(HH._data).copy(), numpy.array(DD._data).copy(),
                   HH.get_current_basis())
            if s % 2 == 1:
                # the dipole strengths of the transitions are looked at
                # before the spectrum is calculated (e.g. for a sum rule)
                for k in range(1, N + 1):
                    ds_k = DD.dipole_strength(transition=(0, k))
                    wk = float(numpy.dot(dips[k - 1], dips[k - 1]))
                    if abs(ds_k - wk) > 1e-10 * max(1.0, wk):
                        ck.violation("dipole-strength", "site-basis",
                                     dict(rp, k=k, got=float(ds_k), want=wk),
                                     rp)
            ax, d0, _ = spectrum(ag, ta)
            fp1 = (numpy.array(HH._data), numpy.array(DD._data),
                   HH.get_current_basis())
            ck.case("system-unchanged", s)
            if (numpy.abs(fp0[0] - fp1[0]).max() > 1e-13 or
                    numpy.abs(fp0[1] - fp1[1]).max() > 1e-13 or
                    fp0[2] != fp1[2]):
                ck.violation("system-unchanged", "H/D", dict(
                    rp, dH=float(numpy.abs(fp0[0] - fp1[0]).max()),
                    dD=float(numpy.abs(fp0[1] - fp1[1]).max())), rp)
            ref = reference(ag, ta, ax)
            sc = float(numpy.abs(ref).max())
            # quadrature estimate: the same reference on the dt/2 grid
            ag2, ta2 = build(N, Ecm, Jcm, dips, reorg, cort,
                             Nt=2 * Nt_s - 1, dt=1.0)
            ref2 = reference(ag2, ta2, ax)
            rich = float(numpy.abs(ref - ref2).max()) / sc
            err = float(numpy.abs(d0 - ref).max()) / sc
            # how far would a one-point displacement be?
            shift1 = float(numpy.abs(ref[1:] - ref[:-1]).max()) / sc
            tol = 10 * rich + 1e-3
            ck.case("fourier-integral", s, sample=dict(
                rp, err=err, quadrature_estimate=rich, tol=tol,
                one_point_shift=shift1))
            if err > tol:
                # classify a pure displacement of the data along the axis
                best, bk = err, 0
                for k in (-3, -2, -1, 1, 2, 3):
                    e = float(numpy.abs(numpy.roll(d0, k)[5:-5] -
                                        ref[5:-5]).max()) / sc
                    if e < best:
                        best, bk = e, k
                key = ("abs-landing-offset:%+d" % (-bk)) if \
                    (bk != 0 and best <= max(tol, 0.02)) else "shape"
                ck.violation("fourier-integral", key, dict(
                    rp, err=err, tol=tol, best_shift=bk, err_after_shift=best),
                    rp)
            # scaling with the square of a common dipole factor
            sfac = 1.3
            agS, taS = build(N, Ecm, Jcm, dips, reorg, cort, scale=sfac, Nt=Nt_s)
            _, dS, _ = spectrum(agS, taS)
            e = float(numpy.abs(dS - sfac ** 2 * d0).max()) / sc
            ck.case("dipole-scaling", s, sample=dict(rp, err=e))
            if e > 1e-10:
                ck.violation("dipole-scaling", "aggregate", dict(rp, err=e),
                             rp)
            # common rotation of all dipoles
            Q, _ = numpy.linalg.qr(rng.randn(3, 3))
            agR, taR = build(N, Ecm, Jcm, dips.dot(Q.T), reorg, cort, Nt=Nt_s)
            _, dR, _ = spectrum(agR, taR)
            e = float(numpy.abs(dR - d0).max()) / sc
            ck.case("rotation-invariant", s, sample=dict(rp, err=e))
            if e > 1e-10:
                ck.violation("rotation-invariant", "aggregate",
                             dict(rp, err=e), rp)
            # relabelling of the molecules
            for perm in list(itertools.permutations(range(N)))[1:4]:
                agP, taP = build(N, Ecm, Jcm, dips, reorg, cort, perm=perm, Nt=Nt_s)
                _, dP, _ = spectrum(agP, taP)
                e = float(numpy.abs(dP - d0).max()) / sc
                ck.case("relabelling-invariant", (s, perm), sample=dict(
                    rp, perm=list(perm), err=e))
                if e > 1e-9:
                    ck.violation("relabelling-invariant", "aggregate",
                                 dict(rp, perm=list(perm), err=e), rp)
            # sum rule: integral of the raw spectrum ~ sum |d_n|^2 whatever J
            agU, taU = build(N, Ecm, 0 * Jcm, dips, reorg, cort, Nt=Nt_s)
            _, dU, _ = spectrum(agU, taU)
            I0, IU = float(d0.sum()), float(dU.sum())
            e = abs(I0 - IU) / abs(IU)
            ck.case("sum-rule", s, sample=dict(rp, coupled=I0, uncoupled=IU))
            # the integral runs over the returned window only; the wings of
            # the lines that fall outside of it differ between the two cases
            if e > 1e-3:
                ck.violation("sum-rule", "aggregate", dict(
                    rp, coupled=I0, uncoupled=IU, err=e), rp)
            # with a supplied relaxation tensor: inputs unchanged, shape
            for tkind in (("ti", "td") if N >= 2 else ()):
                agT, taT = build(N, Ecm, Jcm, dips, reorg, cort, Nt=Nt_s)
                HT = agT.get_Hamiltonian()
                axT, dT, kw = spectrum(agT, taT, tensor=tkind)
                RT = kw["relaxation_tensor"]
                H2 = kw["effective_hamiltonian"]
                r0 = kw["before"]            # before the first calculation
                h0 = numpy.array(H2._data).copy()
                b0 = (RT.get_current_basis(), H2.get_current_basis())
                calc = qr.AbsSpectrumCalculator(
                    taT, system=agT, relaxation_tensor=RT,
                    effective_hamiltonian=H2)
                with qr.energy_units("1/cm"):
                    calc.bootstrap(rwa=12000.0)
                sp2 = calc.calculate(raw=True)
                ck.case("system-unchanged", (s, "tensor", tkind))
                dr = float(numpy.abs(numpy.array(RT._data) - r0).max()) / \
                    max(1e-300, float(numpy.abs(r0).max()))
                dh = float(numpy.abs(numpy.array(H2._data) - h0).max())
                if dr > 1e-10 or dh > 1e-12 or b0 != (
                        RT.get_current_basis(), H2.get_current_basis()):
                    ck.violation("system-unchanged",
                                 "relaxation-tensor:" + tkind,
                                 dict(rp, tensor=tkind, dR=dr, dH=dh), rp)
                e = float(numpy.abs(numpy.array(sp2.data) - dT).max()) / sc
                if e > 1e-10:
                    ck.violation("system-unchanged",
                                 "second-calculation:" + tkind,
                                 dict(rp, tensor=tkind, err=e), rp)

    ck.assume("lines resolved inside the spectral window (the property's "
              "scope); landing-index binding uses a bath-free monomer at "
              "exact grid tones")
    ck.assume("shape tolerance: 10 x |reference(dt) - reference(dt/2)| + 1e-3 "
              "relative to the maximum (trapezoid double integral of the "
              "same correlation functions against the spline integral of "
              "the library)")
    return ck.finish()
