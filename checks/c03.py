# -*- coding: utf-8 -*-
"""C03 — aggregate Hamiltonian and dipole operator are the Frenkel-exciton
ones.

S  specs/FrenkelAggregate.tla: signatures, generation order, the rules the
   code uses for Hamiltonian / dipole elements and the Frenkel definition
T  TLC: order is a band-ordered bijection with binomial band sizes; the
   code's rules equal the definition for every pair of states; symmetry,
   block structure, adjacent-band dipoles; covariance under every
   relabelling; N <= 4 (5), multiplicity 1 and 2.  Descriptor tables.
H  real aggregates with exactly representable coded parameters (site
   energies powers of two, couplings distinct small integers, integer
   dipoles) compared element by element with the descriptors (==);
   sampled: spectrum / dipole-strength invariance under all relabellings,
   independence of the units used for input and at build time, point-dipole
   couplings against the formula with CODATA constants.
"""
import os
import json
import math
import itertools
import tempfile
import shutil

import scipy.constants as const

from harness.common import Check, MachineryFailure
from harness import registry as R


def main():
    ck = Check("C03")
    import numpy
    import quantarhei as qr

    rng = numpy.random.RandomState(ck.seed)
    cfg = "FrenkelAggregate_large.cfg" if ck.thorough else \
        "FrenkelAggregate.cfg"
    tmp = tempfile.mkdtemp(prefix="c03_")
    try:
        ck.tlc("FrenkelAggregate", cfg, workers=8, env={"TABLE_DIR": tmp})
        tables = {}
        for f in os.listdir(tmp):
            if f.startswith("agg_"):
                row = json.load(open(os.path.join(tmp, f)))
                tables[(row["n"], row["mult"])] = row
    finally:
        shutil.rmtree(tmp, ignore_errors=True)
    if len(tables) < 8:
        raise MachineryFailure("tables missing")

    # ------------------------------------ coded aggregates vs descriptors
    def coded(N):
        E = [float(2 ** (k + 4)) for k in range(N)]          # 16, 32, ...
        J = numpy.zeros((N, N))
        c = 3.0
        for k in range(N):
            for l in range(k + 1, N):
                J[k, l] = J[l, k] = c
                c += 2.0
        d = [numpy.array([k + 1.0, (k + 1.0) ** 2, 1.0]) for k in range(N)]
        return E, J, d

    for (N, mult), row in sorted(tables.items()):
        E, J, d = coded(N)
        rp = dict(kind="coded", N=N, mult=mult)
        with ck.guarded("frenkel-elements", "build", rp, rp):
            with qr.energy_units("int"):
                mols = []
                for k in range(N):
                    m = qr.Molecule([0.0, E[k]])
                    m.set_dipole(0, 1, list(d[k]))
                    mols.append(m)
                ag = qr.Aggregate(mols)
                for k in range(N):
                    for l in range(k + 1, N):
                        ag.set_resonance_coupling(k, l, J[k, l])
                ag.build(mult=mult)
                HH = numpy.array(ag.get_Hamiltonian().data)
                DD = numpy.array(ag.get_TransitionDipoleMoment().data)
            sigs_real = [tuple(int(x) for x in s) for s in ag.elsigs]
            sigs_spec = [tuple(s) for s in row["sigs"]]
            ck.traces_validated += 1
            ck.case("state-space", (N, mult), nontrivial=N > 1, sample=dict(
                rp, sigs=sigs_real[:6], dim=len(sigs_real)))
            if sorted(sigs_real) != sorted(sigs_spec) or \
                    HH.shape[0] != len(sigs_spec):
                ck.violation("state-space", "signatures", dict(
                    rp, real=sigs_real, want=sigs_spec), rp)
                continue
            bands = [sum(s) for s in sigs_real]
            if bands != sorted(bands):
                ck.violation("ordered-by-band", "order", dict(
                    rp, bands=bands), rp)
            elif sigs_real != sigs_spec:
                ck.model_drift("order within bands differs from the spec for "
                               "N=%d mult=%d" % (N, mult))
            nb = [bands.count(b) for b in range(mult + 1)]
            if list(ag.Nb) != nb or list(ag.which_band) != bands:
                ck.violation("ordered-by-band", "Nb/which_band", dict(
                    rp, Nb=list(map(int, ag.Nb)), want=nb), rp)
            pos = {s: i for i, s in enumerate(sigs_real)}
            for i, si in enumerate(sigs_spec):
                for j, sj in enumerate(sigs_spec):
                    h = row["H"][i][j]
                    dd = row["D"][i][j]
                    if h["kind"] == "E":
                        want = sum(E[k - 1] for k in h["a"])
                    elif h["kind"] == "J":
                        want = J[h["a"][0] - 1, h["a"][1] - 1]
                    else:
                        want = 0.0
                    got = HH[pos[si], pos[sj]]
                    ck.case("frenkel-elements", (N, mult, i, j),
                            nontrivial=h["kind"] != "0")
                    if got != want:
                        ck.violation("hamiltonian-element", "H:%s" % h["kind"],
                                     dict(rp, s1=si, s2=sj, got=float(got),
                                          want=want, descriptor=h), rp)
                    wd = d[dd["a"][0] - 1] if dd["kind"] == "D" else \
                        numpy.zeros(3)
                    gd = DD[pos[si], pos[sj], :]
                    if not numpy.array_equal(gd, wd):
                        ck.violation("dipole-element", "D:%s" % dd["kind"],
                                     dict(rp, s1=si, s2=sj, got=gd.tolist(),
                                          want=wd.tolist()), rp)

    # ---------------------------- relabelling and units (sampled, real values)
    def build(Ecm, Jcm, dip, perm, units_in, units_build, mult):
        N = len(Ecm)
        with qr.energy_units(units_in):
            mols = []
            for k in perm:
                m = qr.Molecule([0.0, R.from_internal(Ecm[k] * R.CM2INT,
                                                      units_in)])
                m.set_dipole(0, 1, list(dip[k]))
                mols.append(m)
            ag = qr.Aggregate(mols)
            for a in range(N):
                for b in range(a + 1, N):
                    ag.set_resonance_coupling(a, b, R.from_internal(
                        Jcm[perm[a], perm[b]] * R.CM2INT, units_in))
        with qr.energy_units(units_build):
            ag.build(mult=mult)
        H = numpy.array(ag.get_Hamiltonian()._data)
        D = numpy.array(ag.get_TransitionDipoleMoment()._data)
        return ag, H, D

    def build_in_one_block(Ecm, Jcm, dip, units, mult):
        """parameters given and system built inside ONE units block, after
        another aggregate was specified and built in the same block"""
        N = len(Ecm)
        with qr.energy_units(units):
            other = qr.Aggregate([qr.Molecule([0.0, R.from_internal(
                11000.0 * R.CM2INT, units)])])
            other.build()
            mols = []
            for k in range(N):
                m = qr.Molecule([0.0, R.from_internal(Ecm[k] * R.CM2INT,
                                                      units)])
                m.set_dipole(0, 1, list(dip[k]))
                mols.append(m)
            ag = qr.Aggregate(mols)
            for a in range(N):
                for b in range(a + 1, N):
                    ag.set_resonance_coupling(a, b, R.from_internal(
                        Jcm[a, b] * R.CM2INT, units))
            ag.build(mult=mult)
        H = numpy.array(ag.get_Hamiltonian()._data)
        D = numpy.array(ag.get_TransitionDipoleMoment()._data)
        return ag, H, D

    def observables(ag, H, D):
        ev, S = numpy.linalg.eigh(H)
        # dipole strengths of the transitions from the ground state
        nb0 = 1
        n1 = int(ag.Nb[1])
        S1 = S[nb0:nb0 + n1, nb0:nb0 + n1]
        dex = numpy.einsum('ka,kx->ax', S1, D[0, nb0:nb0 + n1, :])
        ds = numpy.sort(numpy.sum(dex ** 2, axis=1))
        return ev, ds

    nsys = 12 if ck.thorough else 4
    UN = ["1/cm", "eV", "THz", "meV", "int"]
    for s in range(nsys):
        N = 2 + (s % 3)
        mult = 1 + ((s // 3 + s) % 2)
        Ecm = 12000.0 + rng.uniform(-400, 400, size=N)
        Jcm = rng.uniform(-150, 150, size=(N, N))
        Jcm = (Jcm + Jcm.T) / 2
        dip = rng.randn(N, 3)
        ident = list(range(N))
        ag0, H0, D0 = build(Ecm, Jcm, dip, ident, "1/cm", "int", mult)
        ev0, ds0 = observables(ag0, H0, D0)
        rp = dict(kind="sampled", seed=ck.seed, system=s, N=N, mult=mult)
        if numpy.abs(H0 - H0.T).max() != 0 or numpy.iscomplexobj(H0):
            ck.violation("real-symmetric", "H", rp, rp)
        # the library's own exciton picture (Aggregate.diagonalize): energies
        # and dipole strengths of the one-exciton states against the
        # independent diagonalisation above
        with ck.guarded("exciton-dipole-strengths", "diagonalize", rp, rp):
            agd, Hd, Dd = build(Ecm, Jcm, dip, ident, "1/cm", "int", mult)
            agd.diagonalize()
            n1 = int(agd.Nb[1])
            D2 = numpy.array(agd.D2)
            got_ds = numpy.sort(D2[0, 1:1 + n1])
            got_ev = numpy.sort(numpy.real(numpy.diag(numpy.array(agd.HH))))
            e1 = float(numpy.abs(got_ds - ds0).max()) / float(
                numpy.abs(ds0).max())
            e2 = float(numpy.abs(got_ev - numpy.sort(ev0)).max()) / float(
                numpy.abs(ev0).max())
            e3 = float(numpy.abs(D2 - D2.T).max()) / float(numpy.abs(D2).max())
            ck.case("exciton-dipole-strengths", s, sample=dict(
                rp, strengths_err=e1, energies_err=e2, asymmetry=e3))
            if e1 > 1e-9 or e2 > 1e-11 or e3 > 1e-9:
                ck.violation("exciton-dipole-strengths", "diagonalize",
                             dict(rp, strengths_err=e1, energies_err=e2,
                                  asymmetry=e3), rp)
            # the operators handed out AFTER the diagonalisation are still
            # the Frenkel (site basis) ones
            Ha = numpy.array(agd.get_Hamiltonian()._data)
            Da = numpy.array(agd.get_TransitionDipoleMoment()._data)
            ck.case("operators-after-diagonalize", s)
            if not numpy.array_equal(Ha, Hd) or not numpy.array_equal(Da, Dd):
                ck.violation(
                    "hamiltonian-element", "after-diagonalize",
                    dict(rp, dH=float(numpy.abs(Ha - Hd).max()),
                         dD=float(numpy.abs(Da - Dd).max())), rp)
        # parameters changed after the first build, aggregate rebuilt: both
        # accessors hand out the Frenkel matrix of the CURRENT parameters
        # (reference: a fresh aggregate built from the changed parameters)
        with ck.guarded("hamiltonian-element", "after-rebuild", rp, rp):
            agr, Hr0, Dr0 = build(Ecm, Jcm, dip, ident, "1/cm", "int", mult)
            numpy.array(agr.get_electronic_Hamiltonian()._data)   # first read
            E2 = numpy.array(Ecm)
            E2[N - 1] -= 333.0
            J2 = numpy.array(Jcm)
            J2[0, N - 1] = J2[N - 1, 0] = Jcm[0, N - 1] + 217.0
            with qr.energy_units("1/cm"):
                agr.set_resonance_coupling(0, N - 1, float(J2[0, N - 1]))
                agr.monomers[N - 1].set_energy(1, float(E2[N - 1]))
            agr.rebuild(mult=mult)
            agf, Hf, Df = build(E2, J2, dip, ident, "1/cm", "int", mult)
            for nm_, got, want in (
                    ("get_Hamiltonian",
                     numpy.array(agr.get_Hamiltonian()._data), Hf),
                    ("get_electronic_Hamiltonian",
                     numpy.array(agr.get_electronic_Hamiltonian()._data),
                     numpy.array(agf.get_electronic_Hamiltonian()._data))):
                e = (float(numpy.abs(got - want).max())
                     if got.shape == want.shape else float("inf"))
                ck.case("after-rebuild", (s, nm_), sample=dict(
                    rp, accessor=nm_, err=e))
                if e > 1e-12 * float(numpy.abs(want).max()):
                    ck.violation("hamiltonian-element",
                                 "after-rebuild:" + nm_,
                                 dict(rp, accessor=nm_, err=e), rp)
            if float(numpy.abs(Hf - Hr0).max()) == 0.0:
                raise MachineryFailure("rebuild clause changed nothing")
        for perm in itertools.permutations(range(N)):
            with ck.guarded("relabelling-invariant", "perm", rp, rp):
                ag1, H1, D1 = build(Ecm, Jcm, dip, list(perm), "1/cm", "int",
                                    mult)
                ev1, ds1 = observables(ag1, H1, D1)
                e = float(numpy.abs(ev1 - ev0).max()) / float(
                    numpy.abs(ev0).max())
                e2 = float(numpy.abs(ds1 - ds0).max()) / float(
                    numpy.abs(ds0).max())
                ck.case("relabelling-invariant", (s, perm),
                        nontrivial=list(perm) != ident,
                        sample=dict(rp, perm=list(perm), spectrum_err=e,
                                    dipole_err=e2))
                if e > 1e-11 or e2 > 1e-9:
                    ck.violation("relabelling-invariant", "perm",
                                 dict(rp, perm=list(perm), spectrum_err=e,
                                      dipole_err=e2), rp)
        for ui in UN:
            with ck.guarded("units-independent", "one-block", rp, rp):
                ag1, H1, D1 = build_in_one_block(Ecm, Jcm, dip, ui, mult)
                e = float(numpy.abs(H1 - H0).max()) / float(
                    numpy.abs(H0).max())
                ck.case("units-independent", (s, ui, "one-block"),
                        nontrivial=ui != "int",
                        sample=dict(rp, units=ui, workflow="one block, "
                                    "second aggregate", err=e))
                if e > 1e-12 or not numpy.array_equal(D1, D0):
                    ck.violation("units-independent",
                                 "one-block-second-aggregate:%s" % ui,
                                 dict(rp, units=ui, err=e), rp)
        for ui in UN:
            for ub in ("int", "1/cm", "eV"):
                with ck.guarded("units-independent", "build", rp, rp):
                    ag1, H1, D1 = build(Ecm, Jcm, dip, ident, ui, ub, mult)
                    e = float(numpy.abs(H1 - H0).max()) / float(
                        numpy.abs(H0).max())
                    ck.case("units-independent", (s, ui, ub),
                            nontrivial=(ui, ub) != ("1/cm", "int"),
                            sample=dict(rp, units_in=ui, units_build=ub,
                                        err=e))
                    if e > 1e-12 or not numpy.array_equal(D1, D0):
                        ck.violation("units-independent",
                                     "in=%s;build=%s" % (ui, ub),
                                     dict(rp, units_in=ui, units_build=ub,
                                          err=e), rp)
                    # the same matrix read through the public accessors
                    # while the units of the build are active (for purely
                    # electronic aggregates the electronic Hamiltonian is
                    # the Hamiltonian)
                    f = R.to_internal(1.0, ub)
                    with qr.energy_units(ub):
                        Hg = numpy.array(ag1.get_Hamiltonian().data)
                        He = numpy.array(
                            ag1.get_electronic_Hamiltonian().data)
                    for nm_, Hx in (("get_Hamiltonian", Hg),
                                    ("get_electronic_Hamiltonian", He)):
                        e = float(numpy.abs(numpy.real(Hx) * f - H0).max()
                                  ) / float(numpy.abs(H0).max())
                        ck.case("units-independent", (s, ui, ub, nm_),
                                nontrivial=ub != "int",
                                sample=dict(rp, units_in=ui, units_read=ub,
                                            accessor=nm_, err=e))
                        if e > 1e-12:
                            ck.violation("units-independent",
                                         "read:%s:%s" % (nm_, ub),
                                         dict(rp, units_in=ui, units_read=ub,
                                              accessor=nm_, err=e), rp)

    # ------------------------------------------------ point-dipole formula
    debye = 1.0e-21 / const.c                     # C m
    forms = ["float", "int-array", "int-list", "mixed", "float", "int-array",
             "int-list", "float32"]   # (tuples are refused by the setter)
    shared_params = {}
    for s in range(32 if ck.thorough else 16):
        form = forms[s % len(forms)]
        d1, d2 = rng.randn(3) * 3, rng.randn(3) * 3
        r1 = rng.randn(3) * 5
        r2 = r1 + rng.randn(3) * 8 + numpy.array([6.0, 0, 0])
        # the same geometry in the representations a user may type
        if form != "float":
            r1 = numpy.round(r1)
            r2 = numpy.round(r2)
            if form in ("int-array", "mixed"):
                d1 = numpy.round(d1) + numpy.array([1.0, 0, 0])
            if form == "int-array":
                r1, r2 = r1.astype(int), r2.astype(int)
                d1 = d1.astype(int)
            elif form == "int-list":
                r1, r2 = [int(x) for x in r1], [int(x) for x in r2]
            elif form == "mixed":
                r1 = r1.astype(int)
            elif form == "float32":
                r1, r2 = r1.astype(numpy.float32), r2.astype(numpy.float32)
        epsr = float(rng.choice([1.0, 1.5, 2.2]))
        pr1, pr2 = r1, r2
        r1 = numpy.array(r1, dtype=float)
        r2 = numpy.array(r2, dtype=float)
        d1 = numpy.array(d1)
        Rv = (r1 - r2)
        RR = numpy.linalg.norm(Rv)
        nn = Rv / RR
        Jsi = ((numpy.dot(d1, d2) - 3 * numpy.dot(d1, nn) * numpy.dot(d2, nn))
               * debye ** 2 / (4 * math.pi * const.epsilon_0 * epsr *
                               (RR * 1e-10) ** 3))
        want_int = Jsi / const.hbar * 1e-15
        rp = dict(kind="point-dipole", d1=d1.tolist(), d2=d2.tolist(),
                  r1=r1.tolist(), r2=r2.tolist(), epsr=epsr, form=form)
        with ck.guarded("point-dipole", "coupling:" + form, rp, rp):
            m1 = qr.Molecule([0.0, 1.0])
            m2 = qr.Molecule([0.0, 1.1])
            m1.set_dipole(0, 1, list(d1))
            m2.set_dipole(0, 1, list(d2))
            m1.position = pr1
            m2.position = pr2
            ag = qr.Aggregate([m1, m2])
            ag.set_coupling_by_dipole_dipole(epsr=epsr)
            with qr.energy_units("int"):
                got = float(ag.get_resonance_coupling(0, 1))
            with qr.energy_units("1/cm"):
                got_cm = float(ag.get_resonance_coupling(0, 1))
            e = abs(got - want_int) / abs(want_int)
            e2 = abs(got_cm - want_int / R.CM2INT) / abs(want_int / R.CM2INT)
            ck.case("point-dipole", s, sample=dict(rp, got=got, want=want_int,
                                                   rel=e))
            # single-precision positions: the library computes the distance
            # vector in single precision (unit round-off 6e-8, amplified by
            # the cube of the distance and the cancellation in the bracket)
            ptol = 1e-4 if form == "float32" else 1e-6
            if e > ptol or e2 > ptol:
                ck.violation("point-dipole", "formula:" + form, dict(
                    rp, got=got, want=want_int, rel=e, rel_cm=e2), rp)
            # the other public entry point, with one parameter dictionary
            # per eps_r shared by all aggregates of this run (as in a loop
            # over geometries)
            pd = shared_params.setdefault(epsr, dict(epsr=epsr))
            ag2 = qr.Aggregate([m1, m2])
            ag2.calculate_resonance_coupling(method="dipole-dipole",
                                             params=pd)
            with qr.energy_units("int"):
                got2 = float(ag2.get_resonance_coupling(0, 1))
            e3 = abs(got2 - want_int) / abs(want_int)
            ck.case("point-dipole-by-method", s,
                    sample=dict(rp, got=got2, want=want_int, rel=e3))
            if e3 > ptol:
                ck.violation("point-dipole", "by-method:" + form, dict(
                    rp, got=got2, want=want_int, rel=e3,
                    entry="calculate_resonance_coupling"), rp)

    ck.assume("two-level molecules; TLC bound N <= 4 (5), multiplicity 1, 2; "
              "coded parameters are exactly representable so elements are "
              "compared with ==")
    ck.assume("point-dipole couplings compared at 1e-6 relative with CODATA "
              "constants from scipy (Debye = 1e-21/c C m)")
    ck.assume("order of states within a band is not part of the property; a "
              "different order is reported as model drift")
    return ck.finish()
