# -*- coding: utf-8 -*-
"""C18 — saved objects and exported data load back to the same physical
values.

S  specs/SaveLoad.tla (on top of BasisManager.tla): a parcel carries the
   stored data and the basis tag of a managed object; loading creates an
   object under the current manager state without registering it
T  TLC over all histories with Save / Load in the bound: a loaded object is
   managed like any other (tag on the stack, registered, data in the basis of
   its tag) and all BasisManager invariants keep holding; the variant that
   pickles the object as it is stored inside a context must be rejected
H  every saveable class of a registry (axes, functions, operators,
   Hamiltonians, density matrices and their evolutions, relaxation tensors,
   molecules, aggregates built and unbuilt, bath functions, spectra and
   containers, 2D responses) is saved and loaded under every combination of
   basis depth 0/1/2 and energy units at save and at load time; the observable
   data are compared in a neutral context.  Export/import matrix: every
   format x real/complex x 1D/2D x with/without axis.
"""
import os
import io
import itertools
import tempfile
import shutil
import contextlib

from harness.common import Check, MachineryFailure
from harness import tensors as T


def main():
    ck = Check("C18")
    import numpy
    import quantarhei as qr

    rng = numpy.random.RandomState(ck.seed)
    ck.tlc("SaveLoad", "SaveLoad.cfg", workers=16)
    ck.tlc("SaveLoad", "SaveLoad_asis.cfg", count=False,
           expect_violation="NoLostObject")

    tmp = tempfile.mkdtemp(prefix="c18_")

    # ------------------------------------------------------------ registry
    def agg(build=True):
        ag, ta = T.build_aggregate(qr, numpy.random.RandomState(5), 2,
                                   Nt=100, dt=2.0,
                                   J=[[0, 80.0], [80.0, 0]],
                                   energies=[12000.0, 12300.0],
                                   reorg=[30.0, 40.0], cortime=[80.0, 100.0])
        if not build:
            with qr.energy_units("1/cm"):
                m1 = qr.Molecule([0.0, 12000.0])
                m2 = qr.Molecule([0.0, 12300.0])
                m1.set_dipole(0, 1, [1.0, 0.0, 0.0])
                m2.set_dipole(0, 1, [0.0, 1.0, 0.0])
                ag = qr.Aggregate([m1, m2])
                ag.set_resonance_coupling(0, 1, 80.0)
        return ag, ta

    def obs_matrix(o):
        return numpy.array(o.data)

    A0 = rng.randn(3, 3)
    Hd = (A0 + A0.T) / 2

    def reg():
        """name -> (factory, observable(obj) evaluated in a neutral context,
        context Hamiltonian or None)"""
        r = {}
        r["TimeAxis"] = (lambda: qr.TimeAxis(0.5, 20, 0.25),
                         lambda o: numpy.array(o.data))
        r["FrequencyAxis"] = (lambda: qr.TimeAxis(0.0, 16, 1.0
                                                  ).get_FrequencyAxis(),
                              lambda o: numpy.array(o.data))
        r["DFunction"] = (lambda: qr.DFunction(
            qr.TimeAxis(0.0, 10, 1.0), numpy.arange(10) * (1 + 0.5j)),
            lambda o: numpy.concatenate([numpy.array(o.axis.data),
                                         numpy.array(o.data)]))
        r["Operator"] = (lambda: qr.qm.Operator(data=A0 + 1j * A0.T),
                         obs_matrix)
        r["SelfAdjointOperator"] = (lambda: qr.qm.SelfAdjointOperator(
            data=Hd.copy()), obs_matrix)
        r["Hamiltonian"] = (lambda: qr.Hamiltonian(data=Hd.copy()),
                            obs_matrix)
        r["ReducedDensityMatrix"] = (lambda: qr.ReducedDensityMatrix(
            data=numpy.diag([0.5, 0.3, 0.2]).astype(complex)), obs_matrix)

        def dme():
            ta = qr.TimeAxis(0.0, 3, 1.0)
            r0 = qr.ReducedDensityMatrix(
                data=numpy.diag([0.5, 0.3, 0.2]).astype(complex))
            ev = qr.DensityMatrixEvolution(ta, r0)
            ev.data[1, :, :] = 2 * numpy.array(r0.data)
            return ev
        r["DensityMatrixEvolution"] = (dme, obs_matrix)

        def cfun():
            ta = qr.TimeAxis(0.0, 50, 2.0)
            with qr.energy_units("1/cm"):
                return qr.CorrelationFunction(ta, dict(
                    ftype="OverdampedBrownian", reorg=30.0, cortime=80.0,
                    T=300.0, matsubara=10))
        r["CorrelationFunction"] = (cfun, lambda o: numpy.concatenate(
            [numpy.array(o.data), [o.lamb, o.temperature]]))

        def sd():
            ta = qr.TimeAxis(0.0, 50, 2.0)
            with qr.energy_units("1/cm"):
                return qr.SpectralDensity(ta, dict(
                    ftype="OverdampedBrownian", reorg=30.0, cortime=80.0))
        r["SpectralDensity"] = (sd, lambda o: numpy.concatenate(
            [numpy.array(o.data), [o.lamb]]))

        def mol():
            with qr.energy_units("1/cm"):
                m = qr.Molecule([0.0, 12000.0])
                mod = qr.Mode(300.0)
                m.add_Mode(mod)
                mod.set_nmax(0, 2)
                mod.set_nmax(1, 2)
                mod.set_HR(1, 0.2)
                m.set_dipole(0, 1, [1.0, 2.0, 0.5])
            return m
        r["Molecule"] = (mol, lambda o: numpy.concatenate([
            numpy.array(o.get_Hamiltonian().data).ravel(),
            numpy.array(o.get_dipole(0, 1))]))
        r["Aggregate-unbuilt"] = (lambda: agg(False)[0], None)
        r["Aggregate-built"] = (lambda: agg(True)[0], None)

        def redfield():
            ag, ta = agg(True)
            RT, H2 = ag.get_RelaxationTensor(
                ta, relaxation_theory="standard_Redfield")
            return RT
        r["RedfieldRelaxationTensor"] = (redfield, obs_matrix)

        def absspec():
            ag, ta = agg(True)
            calc = qr.AbsSpectrumCalculator(ta, system=ag)
            with qr.energy_units("1/cm"):
                calc.bootstrap(rwa=12100.0)
            return calc.calculate()
        r["AbsSpectrum"] = (absspec, lambda o: numpy.concatenate(
            [numpy.array(o.axis.data), numpy.array(o.data)]))

        def twod():
            from quantarhei.spectroscopy.twod2 import TwoDResponse
            from quantarhei.core.valueaxis import ValueAxis
            o = TwoDResponse()
            o.set_axis_1(ValueAxis(0.0, 3, 1.0))
            o.set_axis_3(ValueAxis(0.0, 3, 1.0))
            d = numpy.arange(9).reshape(3, 3) * (1 + 1j)
            o._add_data(d.copy(), resolution="pathways", dtype="R1g",
                        tag="a")
            o._add_data(2 * d, resolution="pathways", dtype="R2g", tag="b")
            return o

        def twod_obs(o):
            o.set_data_flag(qr.signal_TOTL)
            a = numpy.array(o.d__data)
            o.set_data_flag(qr.signal_REPH)
            return numpy.concatenate([a.ravel(), numpy.array(o.d__data
                                                             ).ravel()])
        r["TwoDResponse"] = (twod, twod_obs)
        return r

    def agg_obs(ag):
        if not ag._built:
            ag.build()
        H = numpy.array(ag.get_Hamiltonian().data)
        D = numpy.array(ag.get_TransitionDipoleMoment().data)
        return numpy.concatenate([H.ravel(), D.ravel()])

    registry = reg()
    ctxH = qr.Hamiltonian(data=numpy.array([[0.0, 0.3, 0.1],
                                            [0.3, 1.0, 0.2],
                                            [0.1, 0.2, 2.0]]))

    def touch(o, name):
        """make sure a managed object is presented in the current basis
        before it is saved (as a user who works with it would)"""
        for attr in ("data",):
            try:
                getattr(o, attr)
            except Exception:
                pass
        if name.startswith("Aggregate") and getattr(o, "_built", False):
            o.get_Hamiltonian().data
            o.get_TransitionDipoleMoment().data

    UNITS = ["int", "1/cm", "eV", "nm"]      # nm: the reciprocal unit
    for name, ent in registry.items():
        factory, observable = ent[0], ent[1]
        if observable is None:
            observable = agg_obs
        with qr.energy_units("int"):
            want = observable(factory())
        dims = {"Operator": 3, "SelfAdjointOperator": 3, "Hamiltonian": 3,
                "ReducedDensityMatrix": 3, "DensityMatrixEvolution": 3}
        # save scenarios: depth 0, 1, 2 (two nested contexts of
        # non-commuting operators, object accessed in the inner one) and
        # "2o" (accessed in the outer context only, saved in the inner one)
        for ds, dl in itertools.product((0, 1, 2, "2o"), (0, 1, 2)):
            for us, ul in ([("int", "int"), ("1/cm", "eV"), ("eV", "int"),
                            ("int", "nm"), ("nm", "1/cm")]
                           if not ck.thorough else
                           itertools.product(UNITS, repeat=2)):
                rp = dict(kind="parcel", cls=name, save_depth=ds,
                          load_depth=dl, save_units=us, load_units=ul)
                fn = os.path.join(tmp, "obj.qrp")
                key = "parcel:save-depth=%s" % ds
                obj = factory()
                # the context operator: for 3x3 objects a fixed Hamiltonian,
                # for aggregates / tensors their own Hamiltonian
                def ctxop(o):
                    if name in dims:
                        return ctxH
                    if name.startswith("Aggregate") and o._built:
                        return o.get_Hamiltonian()
                    if name == "RedfieldRelaxationTensor":
                        return o.Hamiltonian
                    return ctxH
                def inner(op):
                    n = op.dim
                    B = numpy.random.RandomState(n).randn(n, n)
                    return qr.Hamiltonian(data=(B + B.T) / 2)
                with ck.guarded("parcel-round-trip", key, rp, rp):
                    with qr.energy_units(us):
                        if ds == 1:
                            with qr.eigenbasis_of(ctxop(obj)):
                                touch(obj, name)
                                obj.save(fn)
                        elif ds in (2, "2o"):
                            op1 = ctxop(obj)
                            op2 = inner(op1)
                            with qr.eigenbasis_of(op1):
                                if ds == "2o":
                                    touch(obj, name)
                                with qr.eigenbasis_of(op2):
                                    if ds == 2:
                                        touch(obj, name)
                                    obj.save(fn)
                        else:
                            obj.save(fn)
                    with qr.energy_units(ul):
                        if dl == 1:
                            with qr.eigenbasis_of(ctxH):
                                new = qr.load_parcel(fn)
                                touch(new, name)
                        elif dl == 2:
                            with qr.eigenbasis_of(ctxH):
                                with qr.eigenbasis_of(inner(ctxH)):
                                    new = qr.load_parcel(fn)
                                    touch(new, name)
                        else:
                            new = qr.load_parcel(fn)
                    with qr.energy_units("int"):
                        got = observable(new)
                    sc = max(1.0, float(numpy.abs(want).max()))
                    ok = (got.shape == want.shape and
                          float(numpy.abs(got - want).max()) <= 1e-10 * sc)
                    ck.case("parcel-round-trip", (name, ds, dl, us, ul),
                            nontrivial=(ds, dl, us, ul) != (0, 0, "int",
                                                            "int"),
                            sample=dict(rp, ok=bool(ok)))
                    if not ok:
                        err = float(numpy.abs(got - want).max()) if \
                            got.shape == want.shape else None
                        ck.violation("parcel-round-trip", key, dict(
                            rp, err=err), rp)
                _reset(qr)

    # ------------------------- several objects in ONE open file (a stream)
    import io as _io
    for us, ul in (("int", "int"), ("1/cm", "eV")):
        rp = dict(kind="stream", save_units=us, load_units=ul)
        with ck.guarded("parcel-round-trip", "stream", rp, rp):
            objs = [qr.DFunction(qr.TimeAxis(0.0, 5, 1.0),
                                 numpy.arange(5) * (1 + 2j)),
                    qr.Hamiltonian(data=Hd.copy()),
                    qr.ReducedDensityMatrix(
                        data=numpy.diag([0.5, 0.3, 0.2]).astype(complex)),
                    qr.TimeAxis(0.0, 16, 1.0).get_FrequencyAxis()]
            with qr.energy_units("int"):
                want_s = [numpy.array(o.data) for o in objs]
            fd = _io.BytesIO()
            with qr.energy_units(us):
                for o in objs:
                    o.save(fd)
            fd.seek(0)
            got_s = []
            with qr.energy_units(ul):
                for o in objs:
                    got_s.append(type(o)().load(fd)
                                 if not isinstance(o, qr.DFunction)
                                 else qr.DFunction().load(fd))
            with qr.energy_units("int"):
                oks = [type(g) is type(o) and numpy.array(g.data).shape ==
                       w.shape and float(numpy.abs(numpy.array(g.data) - w
                                                   ).max()) <= 1e-12
                       for g, o, w in zip(got_s, objs, want_s)]
            ck.case("parcel-round-trip", ("stream", us, ul),
                    sample=dict(rp, ok=oks))
            if not all(oks):
                ck.violation("parcel-round-trip", "stream:position-%d" %
                             oks.index(False), dict(rp, ok=oks), rp)

    # ------------------------------------- SaveLoad behaviours -> real code
    replay_behaviours(ck, qr, numpy, tmp)
    savedir_behaviours(ck, qr, numpy, tmp)

    # ------------------------------------------------------- export matrix
    class Holder(qr.DFunction):
        pass

    for ext in (".dat", ".txt", ".npy", ".npz", ".mat"):
        for cplx in (False, True):
            for ndim in (1, 2):
                for with_axis in (False, True):
                    n = 7
                    d = rng.randn(n) if ndim == 1 else rng.randn(n, 3)
                    if cplx:
                        d = d + 1j * (rng.randn(*d.shape))
                    ax = qr.TimeAxis(0.5, n, 0.25)
                    rp = dict(kind="export", fmt=ext, complex=cplx,
                              ndim=ndim, with_axis=with_axis)
                    fn = os.path.join(tmp, "d" + ext)
                    key = "export:%s:%s:%dD:%s" % (
                        ext, "complex" if cplx else "real", ndim,
                        "axis" if with_axis else "noaxis")
                    with ck.guarded("export-round-trip", key, rp, rp):
                        src = qr.DFunction(ax, d[:, 0].copy() if ndim == 2
                                           else d.copy())
                        src._data = d.copy() if hasattr(src, "_data") else None
                        src.data = d.copy()
                        with contextlib.redirect_stdout(io.StringIO()):
                            src.save_data(fn, with_axis=ax if with_axis
                                          else None)
                            dst = qr.DFunction(qr.TimeAxis(0.0, n, 1.0),
                                               numpy.zeros(n))
                            ax2 = qr.TimeAxis(0.0, n, 1.0)
                            dst.load_data(fn, with_axis=ax2 if with_axis
                                          else None)
                        got = numpy.array(dst.data)
                        ok = (numpy.squeeze(got).shape == d.shape and
                              numpy.abs(numpy.squeeze(got) - d).max() < 1e-12)
                        if with_axis:
                            ok = ok and numpy.abs(numpy.array(ax2.data) -
                                                  numpy.array(ax.data)
                                                  ).max() < 1e-12
                        same_shape = got.shape == d.shape
                        ck.case("export-round-trip", (ext, cplx, ndim,
                                                      with_axis),
                                sample=dict(rp, ok=bool(ok),
                                            shape=list(got.shape)))
                        if not ok:
                            ck.violation("export-round-trip", key, dict(
                                rp, got_shape=list(got.shape)), rp)
                        elif not same_shape:
                            ck.note("%s: values equal, array comes back with "
                                    "shape %r instead of %r" % (
                                        key, got.shape, d.shape))
    # spectra export their units-managed frequency axis along with the
    # data: exported and imported under the same units context, axis and
    # values come back (compared in internal units)
    from quantarhei.spectroscopy.abs2 import AbsSpectrum
    for ext in (".dat", ".txt", ".npy", ".npz"):
        for us in ("int", "1/cm", "eV"):
            nfa = 8
            rp = dict(kind="export-spectrum", fmt=ext, units=us)
            key = "export:AbsSpectrum:%s:%s" % (ext, "int" if us == "int"
                                                else "non-int")
            fn = os.path.join(tmp, "sp" + ext)
            with ck.guarded("export-round-trip", key, rp, rp):
                with qr.energy_units("1/cm"):
                    fa = qr.FrequencyAxis(11000.0, nfa, 25.0)
                    fb = qr.FrequencyAxis(0.0, nfa, 1.0)
                vals = rng.rand(nfa)
                src = AbsSpectrum(axis=fa, data=vals.copy())
                dst = AbsSpectrum(axis=fb, data=numpy.zeros(nfa))
                with qr.energy_units(us), contextlib.redirect_stdout(
                        io.StringIO()):
                    src.save_data(fn)
                    dst.load_data(fn)
                with qr.energy_units("int"):
                    ea = float(numpy.abs(numpy.array(dst.axis.data) -
                                         numpy.array(fa.data)).max()) / \
                        float(numpy.abs(numpy.array(fa.data)).max())
                ed = float(numpy.abs(numpy.squeeze(numpy.array(dst.data))
                                     - vals).max())
                ck.case("export-round-trip", ("AbsSpectrum", ext, us),
                        nontrivial=us != "int",
                        sample=dict(rp, axis_err=ea, data_err=ed))
                if ea > 1e-12 or ed > 1e-12:
                    ck.violation("export-round-trip", key,
                                 dict(rp, axis_err=ea, data_err=ed), rp)
    # density-matrix evolutions have their own text layout (time,
    # populations, real and imaginary parts of the upper triangle)
    from quantarhei.qm.propagators.dmevolution import (
        DensityMatrixEvolution, ReducedDensityMatrixEvolution)
    for cls in (DensityMatrixEvolution, ReducedDensityMatrixEvolution):
        for ext in (".dat", ".txt", ".npy", ".npz"):
            for n in ((2, 3, 4, 5, 6) if ck.thorough else (2, 4, 5)):
                nt = 6
                B = rng.randn(nt, n, n) + 1j * rng.randn(nt, n, n)
                d = B + numpy.conj(numpy.transpose(B, (0, 2, 1)))
                ax = qr.TimeAxis(0.0, nt, 2.5)
                rp = dict(kind="export-evolution", cls=cls.__name__, fmt=ext,
                          dim=n)
                key = "export:%s:%s:dim%s" % (cls.__name__, ext,
                                              "<=3" if n <= 3 else ">=4")
                fn = os.path.join(tmp, "ev" + ext)
                with ck.guarded("export-round-trip", key, rp, rp):
                    rho_i = qr.ReducedDensityMatrix(data=d[0].copy())
                    src = cls(ax, rho_i)
                    src.data[:, :, :] = d
                    with contextlib.redirect_stdout(io.StringIO()):
                        src.save_data(fn)
                        dst = cls(qr.TimeAxis(0.0, nt, 2.5))
                        dst.load_data(fn)
                    got = numpy.array(dst.data)
                    ok = got.shape == d.shape and \
                        float(numpy.abs(got - d).max()) < 1e-12
                    ck.case("export-round-trip", (cls.__name__, ext, n),
                            sample=dict(rp, ok=bool(ok)))
                    if not ok:
                        ck.violation("export-round-trip", key, dict(
                            rp, got_shape=list(got.shape),
                            err=float(numpy.abs(got - d).max())
                            if got.shape == d.shape else None), rp)
    shutil.rmtree(tmp, ignore_errors=True)
    ck.assume("observable data are compared in a neutral context (no basis "
              "context, internal units) at 1e-10; objects saved inside a "
              "context were accessed there first")
    ck.assume("load inside a context uses a fixed 3x3 context operator for "
              "3x3 objects only when dimensions agree; otherwise the load "
              "merely happens while some context is open")
    return ck.finish()


def replay_behaviours(ck, qr, numpy, tmp):
    """tlc -simulate behaviours of SaveLoad (create / access / protect / enter
    / exit / raise / catch / Save / Load) executed on real managed objects.
    After every action the projection of the real manager and objects is
    compared with the spec state, and the stored data of every object
    (loaded ones included) must be its physical operator presented in the
    basis its tag names."""
    from harness import tlaparse
    from checks.c04 import projection, _relerr, _reset_manager
    from quantarhei.core.managers import Manager
    man = Manager()
    rng = numpy.random.RandomState(ck.seed + 18)
    nsim = 20000 if ck.thorough else 3000
    d = tempfile.mkdtemp(prefix="c18sim_")
    try:
        pref = os.path.join(d, "tr")
        ck.tlc("SaveLoad", "SaveLoad_sim.cfg",
               simulate="file=%s,num=%d" % (pref, nsim), depth=15, workers=1,
               seed=ck.seed + 5, count=False)
        behs = tlaparse.load_behaviours(pref, must_contain="<Load ")
    finally:
        shutil.rmtree(d, ignore_errors=True)
    if len(behs) < nsim // 20:
        raise MachineryFailure("too few SaveLoad behaviours with a Load")
    fn = os.path.join(tmp, "replay.qrp")
    N = 3

    class Boom(Exception):
        pass

    def herm():
        A = rng.randn(N, N) + (1j * rng.randn(N, N) if rng.rand() < 0.5
                               else 0.0)
        return (A + A.conj().T) / 2

    def total(k):
        """S_1 ... S_k of the real manager"""
        T = numpy.eye(N, dtype=complex)
        for j in range(1, k + 1):
            T = T.dot(numpy.array(man.basis_transformations[j]))
        return T

    def present(A0, k):
        T = total(k)
        return numpy.linalg.inv(T).dot(A0).dot(T)

    nsaves = nloads = ndeep = 0
    for bi, beh in enumerate(behs):
        acts = [a for a, _ in beh[1:]]
        if "Load" not in acts:
            continue
        objs, phys, kinds = {}, {}, {}
        cms, hist = [], []
        blob_phys = blob_kind = None
        blob_tag = 0
        failed = False

        def violation(clause, why):
            ck.violation(clause, "slreplay:" + clause,
                         dict(history=hist, why=why),
                         dict(kind="behaviour", history=hist, behaviour=bi,
                              seed=ck.seed))
        try:
            prev = beh[0][1]
            for act, st in beh[1:]:
                args = st["_args"]
                if act[0] == "S" and act != "Save":
                    act = act[1:]
                if act == "Create":
                    o = args[0]
                    # a loaded object may be used as a context operator,
                    # so everything that can be saved is self-adjoint
                    kind = "ham" if o in ("h", "a") else "rdm"
                    if kind == "ham":
                        A0 = herm()
                    elif kind == "op":
                        A0 = rng.randn(N, N) + 1j * rng.randn(N, N)
                    else:
                        v = rng.randn(N, N) + 1j * rng.randn(N, N)
                        A0 = v.dot(v.conj().T)
                        A0 /= numpy.trace(A0)
                    dd = present(A0, prev["depth"])
                    if kind == "ham":
                        obj = qr.Hamiltonian(data=dd.copy())
                    elif kind == "op":
                        obj = qr.qm.Operator(data=dd.copy())
                    else:
                        obj = qr.ReducedDensityMatrix(data=dd.copy())
                    objs[o] = dict(obj=obj)
                    phys[o], kinds[o] = A0, kind
                    hist.append(["create", o, kind])
                elif act == "Access":
                    objs[args[0]]["obj"].data
                    hist.append(["read", args[0]])
                elif act == "Protect":
                    objs[args[0]]["obj"].protect_basis()
                    hist.append(["protect", args[0]])
                elif act == "Unprotect":
                    objs[args[0]]["obj"].unprotect_basis()
                    hist.append(["unprotect", args[0]])
                elif act == "Enter":
                    cm = qr.eigenbasis_of(objs[args[0]]["obj"])
                    cm.__enter__()
                    cms.append(cm)
                    hist.append(["enter", args[0]])
                elif act == "Exit":
                    cm = cms.pop()
                    if prev["exc"]:
                        cm.__exit__(Boom, Boom(), None)
                    else:
                        cm.__exit__(None, None, None)
                    hist.append(["exit", bool(prev["exc"])])
                elif act in ("Raise", "Catch"):
                    hist.append([act.lower()])
                elif act == "Save":
                    o = args[0]
                    objs[o]["obj"].save(fn)
                    blob_phys, blob_kind = phys[o], kinds[o]
                    blob_tag = st["tag"][o]
                    nsaves += 1
                    hist.append(["save", o, "depth=%d" % st["depth"],
                                 "tag=%d" % st["tag"][o]])
                elif act == "Load":
                    t = st["target"]
                    objs[t] = dict(obj=qr.load_parcel(fn))
                    phys[t], kinds[t] = blob_phys, blob_kind
                    nloads += 1
                    ndeep += 1 if blob_tag >= 2 else 0
                    hist.append(["load", t, "depth=%d" % st["depth"]])
                else:
                    raise MachineryFailure("unknown action " + act)

                proj = projection(man, objs)
                want = dict(stack=list(range(st["depth"] + 1)),
                            ntrans=st["depth"] + 1, flag=bool(st["flag"]),
                            registered={k + 1: sorted(st["registered"][k])
                                        for k in range(st["depth"])},
                            tags={o: st["tag"][o] for o in objs},
                            prot={o: bool(st["prot"][o]) for o in objs})
                if proj != want:
                    diff = {k: (proj[k], want[k]) for k in want
                            if proj[k] != want[k]}
                    if act in ("Save", "Load"):
                        violation("save-load-leaves-manager",
                                  "after %s: %r" % (act, diff))
                    else:
                        ck.model_drift("SaveLoad replay: %r after %r" %
                                       (diff, hist))
                    failed = True
                    break
                for o, e in objs.items():
                    if not st["consistent"][o] or st["prot"][o]:
                        continue
                    got = numpy.array(e["obj"]._data)
                    err = _relerr(got, present(phys[o], st["tag"][o]))
                    if err > 1e-9:
                        loaded = o == st["target"] and "Load" in [
                            h[0].capitalize() for h in hist]
                        violation("loaded-object-data" if loaded else
                                  "representation",
                                  "object %s: stored data are not its "
                                  "operator in the basis of its tag (rel "
                                  "err %.2e)" % (o, err))
                        failed = True
                        break
                if failed:
                    break
                prev = st
        except MachineryFailure:
            raise
        except Exception as e:
            import traceback
            ck.violation("replay-exception", "slreplay:exception:%s" %
                         type(e).__name__,
                         dict(history=hist, tb=traceback.format_exc()[-500:]),
                         dict(kind="behaviour", history=hist, behaviour=bi))
        finally:
            while cms:
                try:
                    cms.pop().__exit__(None, None, None)
                except Exception:
                    pass
            _reset_manager(man)
        ck.case("saveload-behaviour", (bi, tuple(map(tuple, hist))),
                sample=dict(history=hist))
        ck.traces_validated += 1
    # (how many simulated histories save at depth >= 2 varies with the seed;
    # the save/load matrix above covers that depth deterministically)
    if nloads < 20:
        raise MachineryFailure("SaveLoad replay vacuous: %d loads" % nloads)
    ck.note("SaveLoad replay: %d saves, %d loads, %d loads of objects saved "
            "with basis tag >= 2" % (nsaves, nloads, ndeep))


def savedir_behaviours(ck, qr, numpy, tmp):
    """SaveDir.tla: objects saved into one directory with explicit and
    automatic tags (every order of calls in the bound); loaddir must return
    under every tag the object saved under it last, and an automatically
    tagged save never replaces an entry.  Simulated histories are replayed
    with real objects of several classes."""
    from harness import tlaparse
    ck.tlc("SaveDir", "SaveDir_max1.cfg", workers=4)
    ck.tlc("SaveDir", "SaveDir_last1.cfg", count=False,
           expect_violation="NothingLost")
    ck.tlc("SaveDir", "SaveDir_len1.cfg", count=False,
           expect_violation="NothingLost")
    nsim = 300 if ck.thorough else 60
    d = tempfile.mkdtemp(prefix="c18sd_")
    try:
        pref = os.path.join(d, "tr")
        ck.tlc("SaveDir", "SaveDir_sim.cfg",
               simulate="file=%s,num=%d" % (pref, nsim), depth=7, workers=1,
               seed=ck.seed + 9, count=False)
        behs = tlaparse.load_behaviours(pref)
    finally:
        shutil.rmtree(d, ignore_errors=True)
    # canonical histories (0 = no tag given)
    # (tags >= 100 stand for tags that are not integers: strings)
    seqs = [[3, 2, 0], [2, 0], [0, 3, 0], [0, 0, 2, 0], [5, 1, 0, 0],
            [101, 0, 102, 0], [2, 101, 0, 101]]
    NAMES = {101: "first", 102: "second"}
    for beh in behs:
        seqs.append([int(st["_args"][0]) for act, st in beh[1:]])
    seen = set()

    def make(k):
        kind = k % 3
        if kind == 0:
            return qr.DFunction(qr.TimeAxis(0.0, 4, 1.0),
                                numpy.arange(4) * (1 + 1j) + k)
        if kind == 1:
            return qr.ReducedDensityMatrix(
                data=numpy.diag([k, 1.0, 2.0]).astype(complex))
        return qr.Hamiltonian(data=numpy.diag([0.0, float(k), 2.0 * k]))

    def ident(o):
        dd = numpy.array(o.data)
        return int(round(float(numpy.real(dd[0] if dd.ndim == 1 else
                                          dd[1, 1] if isinstance(
                                              o, qr.Hamiltonian) else
                                          dd[0, 0]))))
    for seq in seqs:
        if tuple(seq) in seen or not seq:
            continue
        seen.add(tuple(seq))
        dname = os.path.join(tmp, "sdir_%d" % len(seen))
        rp = dict(kind="savedir", tags=seq)
        with ck.guarded("savedir-round-trip", "savedir", rp, rp):
            expected = {}
            drift = None
            silently = None
            for k, t in enumerate(seq, start=1):
                obj = make(k)
                ints = [x for x in expected if isinstance(x, int)]
                t = NAMES.get(t, t)
                spec_tag = t if t else ((max(ints) + 1) if ints else 1)
                if t == 0:
                    obj.savedir(dname)
                else:
                    obj.savedir(dname, tag=t)
                now = {tg: ident(o) for tg, o in make(1).loaddir(dname
                                                                 ).items()}
                mine = [tg for tg, i in now.items() if i == k]
                if len(mine) != 1:
                    silently = "object %d saved but not loadable" % k
                    break
                tag = mine[0]
                if t == 0 and tag in expected and silently is None:
                    silently = ("automatically tagged save %d replaced the "
                                "object stored under tag %r" % (k, tag))
                if tag != spec_tag and drift is None:
                    drift = (k, tag, spec_tag)
                expected[tag] = k
            got = make(1).loaddir(dname)
            gotmap = {t: ident(o) for t, o in got.items()}
            ck.case("savedir-round-trip", tuple(seq),
                    nontrivial=0 in seq and any(x > 0 for x in seq),
                    sample=dict(rp, loaded=sorted(gotmap.items(), key=str)))
            if silently or gotmap != expected:
                ck.violation("savedir-round-trip", "savedir:lost-object",
                             dict(rp, loaded=sorted(gotmap.items(), key=str),
                                  expected=sorted(expected.items(), key=str),
                                  what=silently), rp)
            elif drift:
                ck.model_drift("savedir %r: save %d got the automatic tag %r, "
                               "the specification assigns %r (nothing lost)"
                               % ((seq,) + drift))
        shutil.rmtree(dname, ignore_errors=True)
        ck.traces_validated += 1


def _reset(qr):
    m = qr.Manager()
    m.basis_stack = [0]
    m.basis_transformations = [1]
    m.basis_registered = {}
    m._in_eigenbasis_of_context = False
