# -*- coding: utf-8 -*-
"""C09 — bath correlation functions add linearly and carry consistent
parameters.

S  specs/BathFunctions.tla
T  TLC exhaustive over all histories of New / x+y / x+=y (also x+=x) / copy
   on up to 4 objects with 5 component kinds (three analytic types, a second
   temperature, a value-defined one); negative controls: dispatch on the
   last component's type (defect repaired in /repo) and temperature test
   after the in-place update; -simulate behaviours
H  every behaviour is replayed on real CorrelationFunction objects (and the
   temperature-free part on SpectralDensity objects) whose components were
   constructed under different energy-units contexts; after every step the
   data of every object are compared with the sum of the individually built
   component arrays, the reorganisation energy with the sum (read under
   several units), and refused operations must leave everything unchanged.
   Numeric clauses: measured vs declared reorganisation energy (tolerance
   from a Richardson estimate), parity of the even/odd Fourier parts.
"""
import os
import tempfile
import shutil

from harness.common import Check, MachineryFailure
from harness import tlaparse
from harness import registry as R


def main():
    ck = Check("C09")
    import numpy
    import quantarhei as qr

    rng = numpy.random.RandomState(ck.seed)

    cfg = "BathFunctions_large.cfg" if ck.thorough else "BathFunctions.cfg"
    res = ck.tlc("BathFunctions", cfg, coverage=True, workers=16)
    for act in ("New", "Add", "IAdd", "Copy"):
        if res["coverage"].get(act, (0, 0))[1] == 0:
            raise MachineryFailure("vacuous: action %s never taken" % act)
    ck.tlc("BathFunctions", "BathFunctions_defect.cfg", count=False,
           expect_violation="DataIsSumOfComponents")
    ck.tlc("BathFunctions", "BathFunctions_defect2.cfg", count=False,
           expect_violation="DataIsSumOfComponents")

    ta = qr.TimeAxis(0.0, 400, 1.0)
    vals = (numpy.exp(-ta.data / 80.0) * (1.0e-4 - 0.5e-4j))

    # component kinds of the spec -> real parameters (energies in cm^-1)
    def params(c):
        if c == "a1":
            return dict(ftype="OverdampedBrownian", reorg=30.0, cortime=100.0,
                        T=300.0, matsubara=20)
        if c == "b1":
            return dict(ftype="UnderdampedBrownian", reorg=10.0, freq=200.0,
                        gamma=10.0, T=300.0)
        if c == "h1":
            return dict(ftype="OverdampedBrownian-HighTemperature",
                        reorg=20.0, cortime=50.0, T=300.0)
        if c == "a2":
            return dict(ftype="OverdampedBrownian", reorg=15.0, cortime=70.0,
                        T=200.0, matsubara=5)
        if c == "v1":
            return dict(ftype="Value-defined", reorg=5.0, T=300.0)
        if c == "c1":
            # same type as a1, different options (default number of
            # Matsubara terms)
            return dict(ftype="OverdampedBrownian", reorg=25.0, cortime=60.0,
                        T=300.0)
        raise KeyError(c)

    def build(c, units):
        p = dict(params(c))
        for k in ("reorg", "freq", "gamma"):      # all are energy parameters
            if k in p:
                p[k] = R.from_internal(p[k] * R.CM2INT, units)
        with qr.energy_units(units):
            if c == "v1":
                return qr.CorrelationFunction(ta, p, values=vals.copy())
            return qr.CorrelationFunction(ta, p)

    UNITS = ["1/cm", "eV", "THz", "meV", "int"]
    base = {c: numpy.array(build(c, "1/cm").data) for c in
            ("a1", "b1", "h1", "a2", "v1", "c1")}
    lamb0 = {c: params(c)["reorg"] * R.CM2INT for c in base}
    # the component arrays themselves must not depend on the units context
    for c in base:
        for u in UNITS:
            d = numpy.array(build(c, u).data)
            e = float(numpy.abs(d - base[c]).max()) / float(
                numpy.abs(base[c]).max())
            ck.case("units-independent-component", (c, u),
                    nontrivial=u != "1/cm")
            if e > 1e-12:
                ck.violation("units-independent", "component:%s:%s" % (c, u),
                             dict(comp=c, units=u, err=e),
                             dict(kind="component", comp=c, units=u))

    def fingerprint(o):
        return (numpy.array(o.data).tobytes(), float(o.lamb),
                float(o.temperature), len(o.params))

    def check_object(o, comps, hist, tag):
        want = sum(base[c] for c in comps)
        sc = float(numpy.abs(want).max())
        e = float(numpy.abs(numpy.array(o.data) - want).max()) / sc
        wl = sum(lamb0[c] for c in comps)
        el = abs(float(o.lamb) - wl) / wl
        rp = dict(kind="history", history=hist, object=tag, comps=comps)
        if e > 1e-12:
            ck.violation("data-is-sum", _key(hist), dict(rp, err=e), rp)
            return False
        if el > 1e-12:
            ck.violation("reorganisation-additive", _key(hist),
                         dict(rp, lamb=float(o.lamb), want=wl), rp)
            return False
        for u in ("1/cm", "eV"):
            with qr.energy_units(u):
                g = float(o.get_reorganization_energy())
            w = R.from_internal(wl, u)
            if abs(g - w) / w > 1e-10:
                ck.violation("reorganisation-additive", "getter:" + u,
                             dict(rp, units=u, got=g, want=w), rp)
                return False
        return True

    # ------------------------------------------------ behaviours -> code
    tmp = tempfile.mkdtemp(prefix="c09_")
    try:
        nsim = 2500 if ck.thorough else 350
        pref = os.path.join(tmp, "tr")
        ck.tlc("BathFunctions", "BathFunctions_sim.cfg",
               simulate="file=%s,num=%d" % (pref, nsim), depth=9, workers=1,
               seed=ck.seed + 5, count=False)
        behs = tlaparse.load_behaviours(pref)
    finally:
        shutil.rmtree(tmp, ignore_errors=True)
    if len(behs) < nsim // 2:
        raise MachineryFailure("too few behaviours")
    ndrift = 0
    for bi, beh in enumerate(behs):
        objs, comps, hist = [], [], []
        # operations are also carried out inside a units context
        opunits = UNITS[bi % len(UNITS)]
        ok_all = True
        for act, st in beh[1:]:
            a = st["_args"]
            want_ok = st["last"] == "ok"
            before = [fingerprint(o) for o in objs]
            got_ok = True
            try:
                with qr.energy_units(opunits):
                    if act == "New":
                        c = a[0]
                        u = UNITS[int(rng.randint(len(UNITS)))]
                        objs.append(build(c, u))
                        comps.append([c])
                        hist.append(["new", c, u])
                    elif act == "Add":
                        x, y = a[0] - 1, a[1] - 1
                        hist.append(["add", x, y])
                        z = objs[x] + objs[y]
                        objs.append(z)
                        comps.append(comps[x] + comps[y])
                    elif act == "IAdd":
                        x, y = a[0] - 1, a[1] - 1
                        hist.append(["iadd", x, y])
                        cy = list(comps[y])
                        objs[x].__iadd__(objs[y])
                        comps[x] = comps[x] + cy
                    elif act == "Copy":
                        x = a[0] - 1
                        hist.append(["copy", x])
                        objs.append(objs[x].copy())
                        comps.append(list(comps[x]))
                    else:
                        raise MachineryFailure("unknown action " + act)
            except MachineryFailure:
                raise
            except Exception as e:
                got_ok = False
                hist[-1].append("refused:" + type(e).__name__)
                after = [fingerprint(o) for o in objs]
                if after != before:
                    rp = dict(kind="history", history=hist)
                    ck.violation("refusal-changes-nothing", _key(hist),
                                 dict(rp, exception=repr(e)[:200]), rp)
                    ok_all = False
                    break
            # mixed temperatures must be refused (property), whatever the
            # model says
            if got_ok:
                for k, cs in enumerate(comps):
                    if len({params(c)["T"] for c in cs}) > 1:
                        rp = dict(kind="history", history=hist)
                        ck.violation("temperatures-refused", _key(hist),
                                     dict(rp, comps=cs), rp)
                        ok_all = False
                if not ok_all:
                    break
                for k, o in enumerate(objs):
                    if not check_object(o, comps[k], hist, k):
                        ok_all = False
                        break
                if not ok_all:
                    break
            if got_ok != want_ok:
                ndrift += 1
                if ndrift <= 3:
                    ck.model_drift("acceptance differs from the spec: %r" %
                                   (hist,))
                break
        ck.case("history-replay", (bi, str(hist)),
                nontrivial=sum(1 for h in hist if h[0] in ("add", "iadd")
                               and not str(h[-1]).startswith("refused")) >= 1,
                sample=dict(op_units=opunits, history=hist))
        ck.traces_validated += 1

    # ----------------------------------------- spectral densities (no T test)
    # ------------------------------------------ the caller's dictionary
    # components created in a scan from ONE dictionary that the caller keeps
    # updating (also with parameters already in internal units): a function
    # keeps the parameters it was created with, so later sums are the sums
    # of the components as they were created
    for units in ("int", "1/cm", "eV"):
        for order in ("(a+b)+c", "a+(b+c)", "a+=b;+c"):
            rp = dict(kind="caller-dictionary", units=units, order=order)
            with ck.guarded("data-is-sum", "caller-dictionary", rp, rp):
                with qr.energy_units(units):
                    p = dict(ftype="OverdampedBrownian", T=300.0,
                             matsubara=10, reorg=0.0, cortime=0.0)
                    fs = []
                    for k in range(3):
                        p["reorg"] = R.from_internal(
                            (20.0 + 15.0 * k) * R.CM2INT, units)
                        p["cortime"] = 100.0 + 40.0 * k
                        fs.append(qr.CorrelationFunction(ta, p))
                    p["reorg"] = R.from_internal(999.0 * R.CM2INT, units)
                    p["cortime"] = 5.0
                want = [numpy.array(f.data) for f in fs]
                wl = [(20.0 + 15.0 * k) * R.CM2INT for k in range(3)]
                a, b, c = fs
                if order == "(a+b)+c":
                    o = (a + b) + c
                elif order == "a+(b+c)":
                    o = a + (b + c)
                else:
                    o = a.copy()
                    o += b
                    o = o + c
                sc = float(numpy.abs(sum(want)).max())
                e = float(numpy.abs(numpy.array(o.data) - sum(want)).max()) / sc
                el = abs(float(o.lamb) - sum(wl)) / sum(wl)
                ek = max(abs(float(f.lamb) - w) / w for f, w in zip(fs, wl))
                eo = max(float(numpy.abs(numpy.array(f.data) - w).max())
                         for f, w in zip(fs, want)) / sc
                ck.case("caller-dictionary", (units, order), sample=dict(
                    rp, data_err=e, lamb_err=el, operand_err=max(ek, eo)))
                if e > 1e-12:
                    ck.violation("data-is-sum", "caller-dictionary:" + units,
                                 dict(rp, err=e), rp)
                if el > 1e-12 or ek > 1e-12:
                    ck.violation("reorganisation-additive",
                                 "caller-dictionary:" + units,
                                 dict(rp, sum_err=el, operand_err=ek), rp)
                if eo > 0.0:
                    ck.violation("operands-unchanged",
                                 "caller-dictionary:" + units,
                                 dict(rp, err=eo), rp)

    sd_units(ck, qr, numpy, ta)

    # ------------------------------------------------------ numeric clauses
    nnum = 30 if ck.thorough else 8
    for s in range(nnum):
        reorg = float(rng.uniform(5, 80))
        ct = float(rng.uniform(30, 150))
        T = float(rng.uniform(100, 350))
        ftype = ["OverdampedBrownian", "OverdampedBrownian-HighTemperature"][
            s % 2]
        res = {}
        for dt in (1.0, 0.5):
            # the axis must cover the decay: 12 correlation times
            n = int(12 * 150 / dt)
            tax = qr.TimeAxis(0.0, n, dt)
            with qr.energy_units("1/cm"):
                cf = qr.CorrelationFunction(tax, dict(
                    ftype=ftype, reorg=reorg, cortime=ct, T=T, matsubara=30))
                res[dt] = float(cf.measure_reorganization_energy())
                if dt == 1.0:
                    ev = cf.get_EvenFTCorrelationFunction()
                    od = cf.get_OddFTCorrelationFunction()
        rich = abs(res[1.0] - res[0.5])
        tail = reorg * float(numpy.exp(-12 * 150.0 / ct))
        tol = 10 * rich + 10 * tail + 1e-9 * reorg
        err = abs(res[1.0] - reorg)
        rp = dict(kind="measured-reorg", ftype=ftype, reorg=reorg, cortime=ct,
                  T=T)
        ck.case("measured-reorganisation-energy", s, sample=dict(
            rp, measured=res[1.0], richardson=rich, tol=tol))
        if err > tol:
            ck.violation("measured-reorganisation-energy", ftype,
                         dict(rp, measured=res[1.0], err=err, tol=tol), rp)
        # parity of the Fourier parts on the symmetric part of the axis
        w = ev.axis.data
        n = len(w)
        # index k <-> frequency -w: axis is w_k = (k - n/2) dw
        ed = numpy.array(ev.data)
        odd = numpy.array(od.data)
        e_par = float(numpy.abs(ed[1:] - ed[1:][::-1]).max()) / max(
            1e-300, float(numpy.abs(ed).max()))
        o_par = float(numpy.abs(odd[1:] + odd[1:][::-1]).max()) / max(
            1e-300, float(numpy.abs(odd).max()))
        ck.case("fourier-parity", s, sample=dict(rp, even=e_par, odd=o_par))
        if e_par > 1e-9 or o_par > 1e-9:
            ck.violation("fourier-parity", ftype, dict(rp, even=e_par,
                                                       odd=o_par), rp)

    ck.assume("TLC bound: <= 4 objects, <= 4 components per object, <= 5 "
              "operations (thorough 6); replayed histories <= 8 operations")
    ck.assume("component kinds: OverdampedBrownian (two temperatures), "
              "UnderdampedBrownian, OverdampedBrownian-HighTemperature, "
              "Value-defined; data compared at 1e-12 relative")
    ck.assume("measured reorganisation energy: tolerance 10 x |value(dt) - "
              "value(dt/2)| + 10 x truncated tail, an estimate of the "
              "quadrature error")
    return ck.finish()


def _key(hist):
    ops = [h[0] for h in hist]
    return "history:" + "-".join(ops[-3:])


def sd_units(ck, qr, numpy, ta):
    """Spectral densities: sums, also when the addition itself is carried
    out inside a units context."""
    from harness import registry as R

    def sd(c, units):
        p = dict(ftype=c[0], reorg=c[1], T=300.0)
        p.update(c[2])
        for k in ("reorg", "freq", "gamma"):
            if k in p:
                p[k] = R.from_internal(p[k] * R.CM2INT, units)
        with qr.energy_units(units):
            return qr.SpectralDensity(ta, p)
    A = ("OverdampedBrownian", 30.0, dict(cortime=100.0))
    B = ("UnderdampedBrownian", 10.0, dict(freq=200.0, gamma=10.0))
    C = ("OverdampedBrownian", 20.0, dict(cortime=40.0))
    base = [numpy.array(sd(c, "1/cm").data) for c in (A, B, C)]
    for opu in ("int", "1/cm", "eV"):
        for u in ("1/cm", "eV", "THz"):
            a, b, c = sd(A, u), sd(B, "1/cm"), sd(C, u)
            forms = {}
            rp = dict(kind="spectral-density", op_units=opu, units=u)
            with ck.guarded("data-is-sum", "spectral-density", rp, rp):
                with qr.energy_units(opu):
                    forms["(a+b)+c"] = (a + b) + c
                    forms["a+(b+c)"] = a + (b + c)
                    x = a.copy()
                    x += b
                    x += c
                    forms["a+=b;+=c"] = x
                    # an object added to itself, in place and by +
                    y = a + b
                    y += y
                    forms["y=a+b;y+=y"] = y
                    z = c.copy()
                    z += z
                    z += b
                    z += z
                    forms["z=c;z+=z;z+=b;z+=z"] = z
                    forms["(b+b)+a"] = (b + b) + a
                weights = {"y=a+b;y+=y": (2, 2, 0),
                           "z=c;z+=z;z+=b;z+=z": (0, 2, 4),
                           "(b+b)+a": (1, 2, 0)}
                for name, f in forms.items():
                    wa, wb, wc = weights.get(name, (1, 1, 1))
                    want = wa * base[0] + wb * base[1] + wc * base[2]
                    wl = (wa * 30.0 + wb * 10.0 + wc * 20.0) * R.CM2INT
                    e = float(numpy.abs(numpy.array(f.data) - want).max()) / \
                        float(numpy.abs(want).max())
                    el = abs(float(f.lamb) - wl) / wl
                    ck.case("spectral-density-sum", (opu, u, name),
                            sample=dict(rp, form=name, err=e, lamb_err=el))
                    if e > 1e-12 or el > 1e-12:
                        ck.violation("data-is-sum",
                                     "spectral-density:op-units=%s" % (
                                         "int" if opu == "int" else "non-int"),
                                     dict(rp, form=name, err=e, lamb_err=el),
                                     rp)
