----------------------------- MODULE CallHistory -----------------------------
(***************************************************************************)
(* Hidden state that calls on shared objects write and later calls read    *)
(* (builders/opensystem.py get_RelaxationTensor: protect / cut-off of the  *)
(* Hamiltonian; qm/propagators/rdmpropagator.py propagate / setDtRefinement*)
(* : dt, Nref; qm/liouvillespace/heom.py KTHierarchyPropagator.propagate:  *)
(* hierarchy.ado; evolutionsuperoperator.calculate: fresh internal         *)
(* propagators; population and state-vector propagators: none).           *)
(*                                                                         *)
(* A call's result is a function of its arguments and of the hidden        *)
(* variables it reads.  Determinacy: those variables have, at every call,  *)
(* the values they have on freshly built objects (or the value the user    *)
(* set explicitly through the documented setter).                          *)
(***************************************************************************)
EXTENDS Integers, Sequences, FiniteSets, TLC

CONSTANTS MaxCalls,
          HeomResets,     \* TRUE: propagate starts from an empty hierarchy (the
                          \*   code, after the repair); FALSE: negative control
          NrefPersists,   \* FALSE: a refinement passed to propagate applies to
                          \*   that call only (the code, after the repair);
                          \*   TRUE: it stays switched on (negative control)
          FreeModeLocal,  \* TRUE: the start level of the integration chosen by
                          \*   propagate(rho, free_hierarchy=True) is local to
                          \*   that call (the code); FALSE: it stays on the
                          \*   propagator (negative control)
          RestoreOnError, \* TRUE: a refinement passed to propagate is taken back
                          \*   also when the propagation raises (the code:
                          \*   try / finally); FALSE: negative control
          SplitCopies,    \* TRUE: PopulationPropagator.get_PropagationMatrix
                          \*   (t, corrections >= 0) splits a COPY of the rate
                          \*   matrix into depopulation and transfer parts
                          \*   (the code); FALSE: it works on the array the
                          \*   propagator (and its user) holds (negative control)
          NefRecomputes   \* TRUE: the initial-condition term of the
                          \*   non-equilibrium Foerster tensor is recomputed
                          \*   from the submitted state by every propagation
                          \*   (the code); FALSE: it is kept when the state
                          \*   OBJECT is the one seen last (negative control:
                          \*   the object may have been changed in place)

VARIABLES userNref,    \* refinement the user set with setDtRefinement (input)
          effNref,     \* refinement the propagator will actually use
          ado,         \* "empty" | "used"   hierarchy.ado
          hamProt,     \* Hamiltonian.is_basis_protected
          hamCut,      \* couplings currently subtracted (JR held aside)
          heomFree,    \* the hierarchy propagator would start its next
                       \* integration above level 0 (free-hierarchy mode left
                       \* switched on)
          popRates,    \* "given" | "altered": the rate matrix held by the
                       \* population propagator
          nefIc,       \* initial condition the stored inhomogeneous term of
                       \* the neF tensor was computed for (0 = none | 1 | 2)
          ncalls,
          lastDet,     \* was the last call's result determined by its inputs?
          lastCall

vars == <<userNref, effNref, ado, hamProt, hamCut, nefIc, heomFree, popRates,
          ncalls, lastDet, lastCall>>

Init == /\ userNref = 1 /\ effNref = 1 /\ ado = "empty"
        /\ hamProt = FALSE /\ hamCut = FALSE /\ nefIc = 0
        /\ heomFree = FALSE /\ popRates = "given"
        /\ ncalls = 0 /\ lastDet = TRUE /\ lastCall = "none"

Tick == ncalls' = ncalls + 1

\* prop.setDtRefinement(n): an explicit, documented input
SetRefinement(n) ==
  /\ userNref' = n /\ effNref' = n
  /\ UNCHANGED <<ado, hamProt, hamCut, nefIc, heomFree, popRates>>
  /\ lastDet' = TRUE /\ lastCall' = "set_refinement" /\ Tick

\* prop.propagate(rho, Nref=k); k = 1 means "argument not given"
RDMPropagate(k) ==
  LET used == IF k > 1 THEN k ELSE effNref
      want == IF k > 1 THEN k ELSE userNref IN
  /\ lastDet' = (used = want)
  /\ effNref' = IF k > 1 /\ NrefPersists THEN k ELSE effNref
  /\ UNCHANGED <<userNref, ado, hamProt, hamCut, nefIc, heomFree, popRates>>
  /\ lastCall' = "rdm_propagate" /\ Tick

\* prop.propagate(rho, Nref=k, ...) that raises after the refinement was
\* applied (unknown method, wrong type of the state, ...); the caller catches
\* the exception and goes on with the same propagator
RDMPropagateRaises(k) ==
  /\ k > 1
  /\ effNref' = IF RestoreOnError THEN effNref ELSE k
  /\ lastDet' = TRUE                          \* no result is returned
  /\ UNCHANGED <<userNref, ado, hamProt, hamCut, nefIc, heomFree, popRates>>
  /\ lastCall' = "rdm_propagate_raises" /\ Tick

\* get_RelaxationTensor: protect, (subtract cut-off), build, (recover),
\* unprotect -- the Hamiltonian is handed back as it was
BuildTensor(cutoff) ==
  /\ hamProt = FALSE /\ hamCut = FALSE          \* precondition = fresh values
  /\ lastDet' = TRUE
  /\ UNCHANGED <<userNref, effNref, ado, hamProt, hamCut, nefIc, heomFree, popRates>>
  /\ lastCall' = "build_tensor" /\ Tick

\* KTHierarchyPropagator.propagate
HeomPropagate ==
  /\ lastDet' = ((HeomResets \/ ado = "empty") /\ ~heomFree)
  /\ ado' = "used"
  /\ UNCHANGED <<userNref, effNref, hamProt, hamCut, nefIc, heomFree, popRates>>
  /\ lastCall' = "heom_propagate" /\ Tick

\* KTHierarchyPropagator.propagate(rho, free_hierarchy=True) (as the kernel
\* calculation of the hierarchy does)
HeomPropagateFree ==
  /\ lastDet' = (HeomResets \/ ado = "empty")
  /\ ado' = "used"
  /\ heomFree' = ~FreeModeLocal
  /\ UNCHANGED <<userNref, effNref, hamProt, hamCut, nefIc, popRates>>
  /\ lastCall' = "heom_propagate_free" /\ Tick

\* EvolutionSuperOperator.calculate, state-vector propagation:
\* no hidden state is read or written
Stateless(name) ==
  /\ lastDet' = TRUE
  /\ UNCHANGED <<userNref, effNref, ado, hamProt, hamCut, nefIc, heomFree, popRates>>
  /\ lastCall' = name /\ Tick

\* PopulationPropagator.propagate: reads the rate matrix the propagator holds
PopPropagate ==
  /\ lastDet' = (popRates = "given")
  /\ UNCHANGED <<userNref, effNref, ado, hamProt, hamCut, nefIc, heomFree, popRates>>
  /\ lastCall' = "pop_propagate" /\ Tick

\* PopulationPropagator.get_PropagationMatrix(sub-axis, corrections = c);
\* c = 0 stands for "argument not given" (no perturbative orders requested)
PopMatrix(c) ==
  /\ lastDet' = (popRates = "given")
  /\ popRates' = IF c > 0 /\ ~SplitCopies THEN "altered" ELSE popRates
  /\ UNCHANGED <<userNref, effNref, ado, hamProt, hamCut, nefIc, heomFree>>
  /\ lastCall' = "pop_matrix" /\ Tick

\* propagation with the non-equilibrium Foerster tensor on ONE shared state
\* object whose elements were set in place to initial condition ic
NefPropagate(ic) ==
  /\ lastDet' = (NefRecomputes \/ nefIc \in {0, ic})
  /\ nefIc' = ic
  /\ UNCHANGED <<userNref, effNref, ado, hamProt, hamCut, heomFree, popRates>>
  /\ lastCall' = "nef_propagate" /\ Tick

Next ==
  \/ \E n \in 1 .. 3 : SetRefinement(n)
  \/ \E ic \in {1, 2} : NefPropagate(ic)
  \/ \E k \in {1, 4} : RDMPropagate(k)
  \/ RDMPropagateRaises(4)
  \/ \E c \in BOOLEAN : BuildTensor(c)
  \/ HeomPropagate \/ HeomPropagateFree
  \/ PopPropagate \/ \E c \in {0, 2} : PopMatrix(c)
  \/ \E nm \in {"eso_calculate", "sv_propagate",
                 "nef_eso_calculate"} : Stateless(nm)

Spec == Init /\ [][Next]_vars
Bounded == ncalls < MaxCalls

Determinacy == lastDet
HamiltonianHandedBack == ~hamProt /\ ~hamCut
=============================================================================
