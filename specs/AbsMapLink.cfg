CONSTANTS
  MinNt = 8
  MaxNt = 40
  Pipeline = "n=2Nt,roll"
SPECIFICATION Spec


CHECK_DEADLOCK FALSE
INVARIANT SameOperators
