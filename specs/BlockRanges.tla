---------------------------- MODULE BlockRanges ----------------------------
(***************************************************************************)
(* Block distribution of an integer range over `size` processes and the    *)
(* sum-reduce of work done on the blocks (quantarhei/core/parallel.py:     *)
(* _calculate_ranges, block_distributed_range/list/array, and their        *)
(* callers that loop over their block and allreduce the partial sums).     *)
(*                                                                         *)
(* Lo/Hi transcribe _calculate_ranges line by line.  The machine lets      *)
(* every process walk its own block one index per step, in every           *)
(* interleaving, and then reduces.                                         *)
(***************************************************************************)
EXTENDS Integers, Sequences, FiniteSets, TLC, Json, SequencesExt, IOUtils

CONSTANTS MaxSize,      \* processes 1..MaxSize
          StartSet,     \* candidate starts
          MaxLen,       \* stop ranges over start..start+MaxLen
          MaxLoops,     \* distributed loops run one after another on the
                        \* same processes (same configuration objects)
          TableFile,    \* "" or path: export the Ranges table as JSON
          HonourStart   \* TRUE: the code as it is; FALSE: the variant that
                        \* ignores `start` (defect fixed in /repo, kept as
                        \* negative control of the model)

\* cfg files cannot contain negative literals
StartsSmall == {-2, 0, 3}
StartsLarge == -3 .. 6

(* -------- transcription of _calculate_ranges(config, start, stop) ------ *)
Whole(start, stop)      == stop - start
PerWorker(n, size)      == n \div size
Remainder(n, size)      == n % size

N1(rank, size, n) ==
  LET pw == PerWorker(n, size)  rem == Remainder(n, size)
      base == rank * pw
  IN  IF rank <= rem
        THEN IF rank # 0 THEN base + (rank - 1) ELSE base
        ELSE base + rem

N2(rank, size, n) ==
  LET pw == PerWorker(n, size)  rem == Remainder(n, size)
      base == rank * pw + pw
  IN  IF rank <= rem
        THEN IF rank # 0 THEN base + rank ELSE base
        ELSE base + rem

Off(start) == IF HonourStart THEN start ELSE 0
Lo(rank, size, start, stop) == Off(start) + N1(rank, size, Whole(start, stop))
Hi(rank, size, start, stop) == Off(start) + N2(rank, size, Whole(start, stop))

Ranks(size) == 0 .. (size - 1)

(* ------------------------- the partition property ---------------------- *)
BlockLen(r, size, start, stop) == Hi(r, size, start, stop) - Lo(r, size, start, stop)

Partition(size, start, stop) ==
  /\ Lo(0, size, start, stop) = start                       \* covers from start
  /\ Hi(size - 1, size, start, stop) = stop                 \* ... to stop
  /\ \A r \in Ranks(size) : BlockLen(r, size, start, stop) >= 0
  /\ \A r \in 1 .. (size - 1) :                             \* contiguous, disjoint
        Lo(r, size, start, stop) = Hi(r - 1, size, start, stop)
  /\ \A r, s \in Ranks(size) :                              \* balanced
        BlockLen(r, size, start, stop) - BlockLen(s, size, start, stop) \in {-1, 0, 1}

AllInstances == (1 .. MaxSize) \X StartSet \X (0 .. MaxLen)

PartitionEverywhere ==
  \A t \in AllInstances : Partition(t[1], t[2], t[2] + t[3])

(* ------------------------- JSON table for the harness ------------------ *)
Row(inst) ==
  [ size |-> inst[1], start |-> inst[2], stop |-> inst[2] + inst[3],
    blocks |-> [ r \in 1 .. inst[1] |->
                   << Lo(r - 1, inst[1], inst[2], inst[2] + inst[3]),
                      Hi(r - 1, inst[1], inst[2], inst[2] + inst[3]) >> ] ]

ASSUME TableFile = "" \/
       JsonSerialize(TableFile, [rows |-> [i \in 1 .. Cardinality(AllInstances) |->
                                    Row(SetToSeq(AllInstances)[i])]])

(* ------------------------------ the machine ---------------------------- *)
VARIABLES size, start, stop,
          pos,      \* pos[r]: next index process r will handle
          work,     \* work[i]: how many times index i has been handled
          phase,    \* "run" | "reduced"
          loop      \* how many loops have been started

vars == <<size, start, stop, pos, work, phase, loop>>

Init ==
  /\ size \in 1 .. MaxSize
  /\ start \in StartSet
  /\ \E len \in 0 .. MaxLen : stop = start + len
  /\ pos = [r \in Ranks(size) |-> Lo(r, size, start, stop)]
  /\ work = [i \in (start - 2) .. (stop + 2) |-> 0]
  /\ phase = "run"
  /\ loop = 1

Step(r) ==
  /\ phase = "run"
  /\ pos[r] < Hi(r, size, start, stop)
  /\ pos[r] \in DOMAIN work          \* (the defective variant may leave it)
  /\ work' = [work EXCEPT ![pos[r]] = @ + 1]
  /\ pos' = [pos EXCEPT ![r] = @ + 1]
  /\ UNCHANGED <<size, start, stop, phase, loop>>

Reduce ==
  /\ phase = "run"
  /\ \A r \in Ranks(size) : pos[r] >= Hi(r, size, start, stop)
  /\ phase' = "reduced"
  /\ UNCHANGED <<size, start, stop, pos, work, loop>>

\* the next distributed loop of the program: a new range on the same
\* processes (whatever the configuration objects remember from the previous
\* loop must not matter)
NewLoop(st, len) ==
  /\ phase = "reduced" /\ loop < MaxLoops
  /\ start' = st /\ stop' = st + len
  /\ pos' = [r \in Ranks(size) |-> Lo(r, size, st, st + len)]
  /\ work' = [i \in (st - 2) .. (st + len + 2) |-> 0]
  /\ phase' = "run" /\ loop' = loop + 1
  /\ UNCHANGED size

StepAny == \E r \in Ranks(size) : Step(r)

Next == StepAny \/ Reduce \/ (\E st \in StartSet, len \in 0 .. MaxLen : NewLoop(st, len))

Spec == Init /\ [][Next]_vars /\ WF_vars(Next)

TypeOK ==
  /\ size \in 1 .. MaxSize /\ phase \in {"run", "reduced"}
  /\ \A r \in Ranks(size) : pos[r] \in Int

\* never handle an index twice or outside the range, in any schedule
NoDoubleWork == \A i \in DOMAIN work :
                   /\ work[i] <= 1
                   /\ (i < start \/ i >= stop) => work[i] = 0

\* the sum-reduced result equals the serial one: every index exactly once
ReducedEqualsSerial ==
  phase = "reduced" =>
     \A i \in DOMAIN work : work[i] = (IF i >= start /\ i < stop THEN 1 ELSE 0)

PartitionHere == Partition(size, start, stop)

Terminates == []<>(phase = "reduced")

(* one-state specification used when only the table / the static partition
   property over the whole instance set is wanted *)
TableFileEnv == IF "TABLE_FILE" \in DOMAIN IOEnv THEN IOEnv.TABLE_FILE ELSE ""
TableSpec == phase = "table" /\ size = 1 /\ start = 0 /\ stop = 0
             /\ pos = <<>> /\ work = <<>> /\ loop = 0 /\ [][FALSE]_vars
PartitionEverywhereInv == PartitionEverywhere
=============================================================================
