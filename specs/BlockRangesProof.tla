------------------------- MODULE BlockRangesProof -------------------------
(***************************************************************************)
(* Unbounded proof (TLAPS) of the partition property of                    *)
(* quantarhei/core/parallel.py:_calculate_ranges for EVERY number of       *)
(* processes and EVERY length.  N1 / N2 are the same transcription as in   *)
(* BlockRanges.tla (module BlockRangesLink lets TLC check that the two     *)
(* texts define the same functions on the bounded domain).                 *)
(***************************************************************************)
EXTENDS Integers

PerWorker(n, size)      == n \div size
Remainder(n, size)      == n % size

N1(rank, size, n) ==
  LET pw == PerWorker(n, size)  rem == Remainder(n, size)
      base == rank * pw
  IN  IF rank <= rem
        THEN IF rank # 0 THEN base + (rank - 1) ELSE base
        ELSE base + rem

N2(rank, size, n) ==
  LET pw == PerWorker(n, size)  rem == Remainder(n, size)
      base == rank * pw + pw
  IN  IF rank <= rem
        THEN IF rank # 0 THEN base + rank ELSE base
        ELSE base + rem

THEOREM DivMod == \A n \in Nat, size \in Nat \ {0} :
                     /\ n = size * (n \div size) + (n % size)
                     /\ (n % size) \in 0 .. (size - 1)
                     /\ (n \div size) \in Nat
  OBVIOUS

LEMMA Distrib == \A a \in Int, b \in Int : (a - 1) * b + b = a * b
  OBVIOUS

\* the first block starts at 0
THEOREM Starts == \A n \in Nat, size \in Nat \ {0} : N1(0, size, n) = 0
  BY DEF N1, PerWorker, Remainder

\* consecutive blocks touch: no gap, no overlap
THEOREM Contiguous ==
  \A n \in Nat, size \in Nat \ {0} : \A r \in 1 .. (size - 1) :
      N1(r, size, n) = N2(r - 1, size, n)
<1> SUFFICES ASSUME NEW n \in Nat, NEW size \in Nat \ {0},
                    NEW r \in 1 .. (size - 1)
             PROVE  N1(r, size, n) = N2(r - 1, size, n)
  OBVIOUS
<1> DEFINE pw == n \div size
<1> DEFINE rem == n % size
<1>1. pw \in Nat /\ rem \in 0 .. (size - 1)
  BY DivMod
<1>2. (r - 1) * pw + pw = r * pw
  BY <1>1, Distrib
<1>3. r * pw \in Int
  BY <1>1
<1> HIDE DEF pw, rem
<1>4. N1(r, size, n) = IF r <= rem THEN r * pw + (r - 1) ELSE r * pw + rem
  BY DEF N1, PerWorker, Remainder, pw, rem
<1>5. N2(r - 1, size, n) =
         IF r - 1 <= rem
           THEN IF r - 1 # 0 THEN ((r - 1) * pw + pw) + (r - 1)
                             ELSE ((r - 1) * pw + pw)
           ELSE ((r - 1) * pw + pw) + rem
  BY DEF N2, PerWorker, Remainder, pw, rem
<1>6. QED
  BY <1>1, <1>2, <1>3, <1>4, <1>5

\* the last block ends at n
THEOREM Ends == \A n \in Nat, size \in Nat \ {0} : N2(size - 1, size, n) = n
<1> SUFFICES ASSUME NEW n \in Nat, NEW size \in Nat \ {0}
             PROVE  N2(size - 1, size, n) = n
  OBVIOUS
<1> DEFINE pw == n \div size
<1> DEFINE rem == n % size
<1>1. pw \in Nat /\ rem \in 0 .. (size - 1) /\ n = size * pw + rem
  BY DivMod
<1>2. (size - 1) * pw + pw = size * pw
  BY <1>1, Distrib
<1>3. size * pw \in Int
  BY <1>1
<1> HIDE DEF pw, rem
<1>4. N2(size - 1, size, n) =
         IF size - 1 <= rem
           THEN IF size - 1 # 0 THEN ((size - 1) * pw + pw) + (size - 1)
                                ELSE ((size - 1) * pw + pw)
           ELSE ((size - 1) * pw + pw) + rem
  BY DEF N2, PerWorker, Remainder, pw, rem
<1>5. QED
  BY <1>1, <1>2, <1>3, <1>4

\* every block has pw or pw + 1 elements (non-negative and balanced)
THEOREM Balanced ==
  \A n \in Nat, size \in Nat \ {0} : \A r \in 0 .. (size - 1) :
      N2(r, size, n) - N1(r, size, n) \in {n \div size, (n \div size) + 1}
<1> SUFFICES ASSUME NEW n \in Nat, NEW size \in Nat \ {0},
                    NEW r \in 0 .. (size - 1)
             PROVE  N2(r, size, n) - N1(r, size, n)
                       \in {n \div size, (n \div size) + 1}
  OBVIOUS
<1> DEFINE pw == n \div size
<1> DEFINE rem == n % size
<1>1. pw \in Nat /\ rem \in 0 .. (size - 1)
  BY DivMod
<1>3. r * pw \in Int
  BY <1>1
<1> HIDE DEF pw, rem
<1>4. N1(r, size, n) =
         IF r <= rem THEN IF r # 0 THEN r * pw + (r - 1) ELSE r * pw
                     ELSE r * pw + rem
  BY DEF N1, PerWorker, Remainder, pw, rem
<1>5. N2(r, size, n) =
         IF r <= rem THEN IF r # 0 THEN (r * pw + pw) + r ELSE (r * pw + pw)
                     ELSE (r * pw + pw) + rem
  BY DEF N2, PerWorker, Remainder, pw, rem
<1>6. N2(r, size, n) - N1(r, size, n) \in {pw, pw + 1}
  BY <1>1, <1>3, <1>4, <1>5
<1>7. QED
  BY <1>6 DEF pw
=============================================================================
