CONSTANTS
  EUnits = {"int", "1/cm", "nm", "eV"}
  LUnits = {"nm", "Bohr"}
  Routines = {"convert", "build", "noop"}
  Raising = {"convert", "set_rwa", "noop"}
  MaxPool = 1
  BackupAt = "enter"
  MaxCtx = 3
  MaxSteps = 16
SPECIFICATION Spec
CONSTRAINT Bounded
INVARIANT CountFlagConsistent
INVARIANT CallerUnitsPreserved
INVARIANT ReturnsPreserveUnits
PROPERTY Restore
CHECK_DEADLOCK FALSE
