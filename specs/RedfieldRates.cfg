CONSTANTS
  N = 3
  Levels = {0, 2, 3, 7}
SPECIFICATION Spec
INVARIANT BranchIsDefinition
INVARIANT NonNegative
INVARIANT DetailedBalance
INVARIANT GroundStateIsolated
CHECK_DEADLOCK FALSE
