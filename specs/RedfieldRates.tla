---------------------------- MODULE RedfieldRates ----------------------------
(***************************************************************************)
(* Structure of the secular Redfield population-transfer rate matrix       *)
(* (qm/liouvillespace/rates/redfieldrates.py _set_rates: branch selection  *)
(* between the downhill value C(w) and the uphill value C(w) exp(-w/kT);   *)
(* implementations/python/redfieldrates.py ssRedfieldRateMatrix:           *)
(* K[i,j] = sum_k cc[k,i,j] KI[k,i,j] KI[k,j,i], clipping, diagonal).      *)
(*                                                                         *)
(* K[i][j] is the rate j -> i.  A rate is kept symbolically as the record  *)
(* [w, up, coef]: coef * C(w) * (exp(-w/kT) if up), w >= 0 the transition  *)
(* frequency between eigenstates with energies en[i], en[j].               *)
(***************************************************************************)
EXTENDS Integers, Sequences, FiniteSets, TLC, Json, IOUtils

CONSTANTS N,           \* number of eigenstates (state 1 is the ground state)
          Levels       \* candidate eigen-energies (integers, ties allowed)

VARIABLES en, ki       \* eigen-energies; symmetric real interaction matrix
vars == <<en, ki>>
Idx == 1 .. N

Sym == {m \in [Idx -> [Idx -> {-1, 0, 1}]] : \A a, b \in Idx : m[a][b] = m[b][a]}
Init == en \in [Idx -> Levels] /\ ki \in Sym
Next == UNCHANGED vars
Spec == Init /\ [][Next]_vars

\* Om[a,b] = en[a] - en[b];  cc[i,j] uses Om[j,i] = en[j] - en[i]
\*   if Om[j,i] < 0 (i lies above j: uphill j -> i):  C(Om[i,j]) exp(-Om[i,j]/kT)
\*   else                                            :  C(Om[j,i])
CC(i, j) == IF en[j] - en[i] < 0
              THEN [w |-> en[i] - en[j], up |-> TRUE]
              ELSE [w |-> en[j] - en[i], up |-> FALSE]
Rate(i, j) == [w |-> CC(i, j).w, up |-> CC(i, j).up, coef |-> ki[i][j] * ki[j][i]]

\* the definition: transfer j -> i at frequency |E_i - E_j|, Boltzmann factor
\* exactly when the transfer goes uphill
DefRate(i, j) ==
  [w |-> IF en[i] > en[j] THEN en[i] - en[j] ELSE en[j] - en[i],
   up |-> en[i] > en[j],
   coef |-> ki[i][j] * ki[j][i]]

BranchIsDefinition == \A i, j \in Idx : i # j => Rate(i, j) = DefRate(i, j)

NonNegative == \A i, j \in Idx : i # j => Rate(i, j).coef >= 0

\* k(a <- b) / k(b <- a) = exp(-(E_a - E_b)/kT): the uphill rate is the
\* downhill rate times the Boltzmann factor of the same frequency
DetailedBalance ==
  \A a, b \in Idx : (a # b /\ en[a] > en[b]) =>
     /\ Rate(a, b).w = Rate(b, a).w /\ Rate(a, b).coef = Rate(b, a).coef
     /\ Rate(a, b).up /\ ~Rate(b, a).up

GroundStateIsolated ==
  (\A x \in Idx : ki[1][x] = 0) =>
     \A i \in Idx : i # 1 => (Rate(1, i).coef = 0 /\ Rate(i, 1).coef = 0)

TableDir == IF "TABLE_DIR" \in DOMAIN IOEnv THEN IOEnv.TABLE_DIR ELSE ""
=============================================================================
