-------------------------- MODULE TwoDStorageTrace --------------------------
(* Validates histories recorded from a real TwoDResponse against           *)
(* TwoDStorage.  Every event carries the complete projected storage        *)
(* (resolution, initialised flag and the stored dictionary), so each trace *)
(* is a linear chain and every conservation invariant of TwoDStorage is    *)
(* evaluated after every recorded call.                                    *)
EXTENDS TwoDStorage, Json, IOUtils

Traces == JsonDeserialize(IOEnv.TRACE_FILE).traces

VARIABLES tid, l
tvars == <<vars, tid, l>>

Ev == Traces[tid][l]
Rng(s) == {s[i] : i \in DOMAIN s}

TraceInit == /\ tid \in 1 .. Len(Traces) /\ l = 2 /\ Init

\* the logged storage is the specified one
Logged ==
  /\ res' = Ev.res /\ init' = Ev.init
  /\ pPath' = {<<e[1], e[2]>> : e \in Rng(Ev.paths)}
  /\ \A e \in Rng(Ev.paths) : sPath'[<<e[1], e[2]>>] = e[3]
  /\ pType' = {e[1] : e \in Rng(Ev.types)}
  /\ \A e \in Rng(Ev.types) : sType'[e[1]] = e[2]
  /\ pProc' = {e[1] : e \in Rng(Ev.procs)}
  /\ \A e \in Rng(Ev.procs) : sProc'[e[1]] = e[2]
  /\ pSig' = {e[1] : e \in Rng(Ev.sigs)}
  /\ \A e \in Rng(Ev.sigs) : sSig'[e[1]] = e[2]
  /\ pTot' = (Len(Ev.tot) > 0)
  /\ \A e \in Rng(Ev.tot) : sTot' = e

TraceAdd ==
  /\ Ev.ev = "add"
  /\ IF Ev.ok THEN AddAccepted(Ev.level, Ev.dtype, Ev.tag, Ev.x)
              ELSE AddRefused(Ev.level, Ev.dtype, Ev.tag, Ev.x)
  /\ Logged

TraceSetRes ==
  /\ Ev.ev = "setres"
  /\ SetResolution(Ev.new)
  /\ (last' = "ok") = Ev.ok
  /\ Logged

TraceNext ==
  /\ l <= Len(Traces[tid])
  /\ l' = l + 1 /\ UNCHANGED tid
  /\ (TraceAdd \/ TraceSetRes)

TraceSpec == TraceInit /\ [][TraceNext]_tvars

Accepting == l <= Len(Traces[tid]) => ENABLED TraceNext
=============================================================================
