---------------------------- MODULE PathwaysTrace ----------------------------
(* Validates pathway lists recorded from the real generators                 *)
(* (Aggregate.liouville_pathways_3T) against Pathways.tla: for every system  *)
(* of the document -- number of states, bright transitions and non-zero      *)
(* transfer elements as the library sees them (its own thresholds), and the  *)
(* `transitions`, `sides`, `relaxations` of every generated pathway object -- *)
(* the recorded list of each type must be exactly the specified set, without *)
(* repetitions.                                                              *)
EXTENDS Pathways, Json, IOUtils, SequencesExt

Doc == JsonDeserialize(IOEnv.TRACE_FILE)
Sys == Doc.systems

VARIABLE sid
tvars == <<cvars, sid>>

TInit ==
  /\ sid \in 1 .. Len(Sys)
  /\ ne = Sys[sid].ne /\ nf = Sys[sid].nf
  /\ b1 = ToSet(Sys[sid].b1)
  /\ b2 = {<<x[1], x[2]>> : x \in ToSet(Sys[sid].b2)}
  /\ tr = {<<x[1], x[2], x[3], x[4]>> : x \in ToSet(Sys[sid].tr)}
TNext == UNCHANGED tvars
TSpec == TInit /\ [][TNext]_tvars

Norm(r) == P(r.t, r.s, r.rel)
RecOK(name) ==
  LET rec == Sys[sid].rec[name] IN
  /\ {Norm(rec[i]) : i \in DOMAIN rec} = Gen(name)
  /\ Len(rec) = Cardinality(Gen(name))

RecR1g == RecOK("R1g")
RecR2g == RecOK("R2g")
RecR3g == RecOK("R3g")
RecR4g == RecOK("R4g")
RecR1f == RecOK("R1f*")
RecR2f == RecOK("R2f*")
\* and the specified properties hold for what was recorded
TSound == \A dir \in {"R", "NR"} : \A p \in GenDir(dir) : WellFormed(p)
TComplete == \A dir \in {"R", "NR"} : Diagrams(dir) \subseteq GenDir(dir)
=============================================================================
