CONSTANTS
  Dim = 3
  Values = {0, 1, 3}
  MaxOps = 6
SPECIFICATION Spec
CONSTRAINT Bounded
INVARIANT ColumnSumsZero
INVARIANT AssignedKept
INVARIANT DiagonalIsDepopulation
PROPERTY RefusalChangesNothing
CHECK_DEADLOCK FALSE
