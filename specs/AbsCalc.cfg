CONSTANTS
  Half = 8
  Rwas = {20, 23, 25}
  Oms = {18, 21, 24, 27}
  MaxCalls = 7
  AxisAbsolute = TRUE
SPECIFICATION Spec
CONSTRAINT Bounded
INVARIANT LineOnItsEnergy
INVARIANT AxisFollowsRwa
CHECK_DEADLOCK FALSE
