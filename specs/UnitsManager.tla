---------------------------- MODULE UnitsManager ----------------------------
(***************************************************************************)
(* Management of physical units in quantarhei (core/managers.py):          *)
(*   Manager.current_units, the SINGLE saved-units slot written by         *)
(*   Manager.set_current_units and read by unset_current_units, the        *)
(*   context managers energy_units / length_units (each keeps its own      *)
(*   backup), the counters _in_eu_count / _in_energy_units_context, and    *)
(*   library routines that switch to internal units while they work.       *)
(*                                                                         *)
(* Primitive actions transcribe the Manager methods one to one.  Library   *)
(* routines are small programs over these primitives (Prog); the user      *)
(* opens/closes contexts, calls routines and raises exceptions in any      *)
(* order.                                                                  *)
(***************************************************************************)
EXTENDS Integers, Sequences, FiniteSets, TLC

CONSTANTS EUnits,       \* energy units explored, e.g. {"int","1/cm","nm"}
          LUnits,       \* length units explored
          Routines,     \* names of library routines the user may call
          Raising,      \* routines in which an exception may be raised
          MaxPool,      \* context-manager objects built ahead of their use
          BackupAt,     \* "enter": the backup of the active units is taken
                        \*   in __enter__ (the code); "init": in __init__
                        \*   (negative control)
          MaxCtx,       \* bound on nesting of contexts
          MaxSteps      \* bound on behaviour length

DefaultE == "int"       \* units active when nothing has been set ("1/fs" and "int" are aliases; the harness normalises to "int")
DefaultL == "A"
NoBk == "none"

\* Library routines as programs over the primitives.
\*   convert / set_rwa / cf_add ... : with energy_units("int"): ...
\*   build_raw   : Aggregate.build before the repair in /repo
\*                 (raw set ... nested routine ... raw unset)
\*   build       : Aggregate.build as it is (local backup, raw set, nested
\*                 routine, raw set back)
Prog(name) ==
  CASE name = "convert"   -> <<"enter_int", "exit">>
    [] name = "set_rwa"   -> <<"enter_int", "exit">>
    [] name = "build_raw" -> <<"rawset_int", "call:set_rwa", "rawunset">>
    [] name = "build"     -> <<"backup", "rawset_int", "call:set_rwa",
                               "restore_backup">>
    [] name = "noop"      -> << >>

VARIABLES
  cur,       \* [energy |-> u, length |-> u]           Manager.current_units
  saved,     \* [t |-> u] with at most one key         Manager._saved_units
  ctx,       \* stack of open contexts [kind, units, backup, lib]
  euCount,   \* Manager._in_eu_count
  euFlag,    \* Manager._in_energy_units_context
  frames,    \* stack of library routines in flight [name, pc, entry, bk, depth]
  pool,      \* energy_units objects constructed but possibly not entered:
             \* sequence of [units, bk0 (units active at construction), open]
  exc,       \* an exception is propagating
  steps,
  viol       \* ghost: a routine returned normally with changed units

vars == <<cur, saved, ctx, euCount, euFlag, frames, pool, exc, steps, viol>>

NoSaved == [t \in {} |-> "x"]

Init ==
  /\ cur = [energy |-> DefaultE, length |-> DefaultL]
  /\ saved = NoSaved
  /\ ctx = << >>
  /\ euCount = 0 /\ euFlag = FALSE
  /\ frames = << >>
  /\ pool = << >>
  /\ exc = FALSE
  /\ steps = 0
  /\ viol = FALSE

InLib == frames # << >>
Front(s) == SubSeq(s, 1, Len(s) - 1)
Last(s) == s[Len(s)]

(* --------------------- primitives (Manager methods) -------------------- *)
\* Manager.set_current_units(t, u): overwrites the WHOLE saved slot
RawSetP(t, u) ==
  /\ saved' = [x \in {t} |-> cur[t]]
  /\ cur' = [cur EXCEPT ![t] = u]

\* Manager.unset_current_units(t): restores from the slot if it holds t
RawUnsetOK(t) == t \in DOMAIN saved
RawUnsetP(t) ==
  /\ cur' = [cur EXCEPT ![t] = saved[t]]
  /\ UNCHANGED saved

\* energy_units(u).__enter__ ; obj = 0 for an inline `with energy_units(u):`
EnterEUObj(u, inlib, obj, bk) ==
  /\ ctx' = Append(ctx, [kind |-> "eu", units |-> u, backup |-> bk,
                         lib |-> inlib, obj |-> obj, atentry |-> cur.energy])
  /\ RawSetP("energy", u)
  /\ euFlag' = TRUE
  /\ euCount' = euCount + 1
EnterEUP(u, inlib) == EnterEUObj(u, inlib, 0, cur.energy)

\* energy_units.__exit__ (also when an exception is propagating)
ExitEUP ==
  /\ ctx # << >> /\ Last(ctx).kind = "eu"
  /\ RawSetP("energy", Last(ctx).backup)
  /\ euCount' = euCount - 1
  /\ euFlag' = IF euCount - 1 = 0 THEN FALSE ELSE euFlag
  /\ ctx' = Front(ctx)

\* length_units(u).__enter__ / __exit__
EnterLenP(u, inlib) ==
  /\ ctx' = Append(ctx, [kind |-> "len", units |-> u, backup |-> cur.length,
                         lib |-> inlib, obj |-> 0, atentry |-> cur.length])
  /\ RawSetP("length", u)
  /\ UNCHANGED <<euFlag, euCount>>

ExitLenP ==
  /\ ctx # << >> /\ Last(ctx).kind = "len"
  /\ RawSetP("length", Last(ctx).backup)
  /\ ctx' = Front(ctx)
  /\ UNCHANGED <<euFlag, euCount>>

ExitTopP == ExitEUP \/ ExitLenP

Tick == steps' = steps + 1

(* ------------------------------ user actions --------------------------- *)
UEnterEU(u) ==
  /\ ~InLib /\ ~exc /\ Len(ctx) < MaxCtx
  /\ EnterEUP(u, FALSE) /\ UNCHANGED <<frames, pool, exc, viol>> /\ Tick

\* e = energy_units(u)   (constructed now, entered later, possibly reused)
UConstruct(u) ==
  /\ ~InLib /\ ~exc /\ Len(pool) < MaxPool
  /\ pool' = Append(pool, [units |-> u, bk0 |-> cur.energy])
  /\ UNCHANGED <<cur, saved, ctx, euCount, euFlag, frames, exc, viol>> /\ Tick

\* with e:      (context managers are not re-entrant: e must not be open)
UEnterObj(i) ==
  /\ ~InLib /\ ~exc /\ Len(ctx) < MaxCtx /\ i \in 1 .. Len(pool)
  /\ \A j \in 1 .. Len(ctx) : ctx[j].obj # i
  /\ EnterEUObj(pool[i].units, FALSE, i,
                IF BackupAt = "enter" THEN cur.energy ELSE pool[i].bk0)
  /\ UNCHANGED <<frames, pool, exc, viol>> /\ Tick

UEnterLen(u) ==
  /\ ~InLib /\ ~exc /\ Len(ctx) < MaxCtx
  /\ EnterLenP(u, FALSE) /\ UNCHANGED <<frames, pool, exc, viol>> /\ Tick

UExit ==
  /\ ~InLib /\ ~exc /\ ctx # << >>
  /\ ExitTopP /\ UNCHANGED <<frames, pool, exc, viol>> /\ Tick

UCall(name) ==
  /\ ~InLib /\ ~exc
  /\ frames' = << [name |-> name, pc |-> 1, entry |-> cur, bk |-> NoBk,
                   depth |-> Len(ctx)] >>
  /\ UNCHANGED <<cur, saved, ctx, euCount, euFlag, pool, exc, viol>> /\ Tick

URaise ==                       \* user code raises inside its contexts
  /\ ~InLib /\ ~exc /\ ctx # << >>
  /\ exc' = TRUE
  /\ UNCHANGED <<cur, saved, ctx, euCount, euFlag, frames, pool, viol>> /\ Tick

(* ---------------------------- library execution ------------------------ *)
Top == Last(frames)
Instr == Prog(Top.name)[Top.pc]
Advance == frames' = [frames EXCEPT ![Len(frames)].pc = @ + 1]

LStep ==
  /\ InLib /\ ~exc /\ Top.pc <= Len(Prog(Top.name))
  /\ CASE Instr = "enter_int" ->
            /\ Len(ctx) < MaxCtx + 2
            /\ EnterEUP("int", TRUE) /\ Advance
       [] Instr = "exit" ->
            /\ ExitEUP /\ Advance
       [] Instr = "rawset_int" ->
            /\ RawSetP("energy", "int") /\ Advance
            /\ UNCHANGED <<ctx, euCount, euFlag>>
       [] Instr = "rawunset" ->
            /\ RawUnsetOK("energy")
            /\ RawUnsetP("energy") /\ Advance
            /\ UNCHANGED <<ctx, euCount, euFlag>>
       [] Instr = "backup" ->
            /\ frames' = [frames EXCEPT ![Len(frames)].pc = @ + 1,
                                        ![Len(frames)].bk = cur.energy]
            /\ UNCHANGED <<cur, saved, ctx, euCount, euFlag>>
       [] Instr = "restore_backup" ->
            /\ RawSetP("energy", Top.bk) /\ Advance
            /\ UNCHANGED <<ctx, euCount, euFlag>>
       [] Instr = "call:set_rwa" ->
            /\ frames' = Append([frames EXCEPT ![Len(frames)].pc = @ + 1],
                                [name |-> "set_rwa", pc |-> 1, entry |-> cur,
                                 bk |-> NoBk, depth |-> Len(ctx)])
            /\ UNCHANGED <<cur, saved, ctx, euCount, euFlag>>
  /\ UNCHANGED <<pool, exc, viol>> /\ Tick

\* normal return of the routine on top of the stack
LReturn ==
  /\ InLib /\ ~exc /\ Top.pc > Len(Prog(Top.name))
  /\ frames' = Front(frames)
  /\ viol' = (viol \/ cur # Top.entry)
  /\ UNCHANGED <<cur, saved, ctx, euCount, euFlag, pool, exc>> /\ Tick

\* a routine raises at any point of its program
LRaise ==
  /\ InLib /\ ~exc
  /\ \A i \in 1 .. Len(frames) : frames[i].name \in Raising
  /\ exc' = TRUE
  /\ UNCHANGED <<cur, saved, ctx, euCount, euFlag, frames, pool, viol>> /\ Tick

(* ------------------------------- unwinding ----------------------------- *)
\* Python leaves the innermost `with` first; a routine's frame is dropped
\* (without running the rest of its program) once its own contexts are closed
Unwind ==
  /\ exc
  /\ IF InLib /\ Len(ctx) = Top.depth
       THEN /\ frames' = Front(frames)
            /\ UNCHANGED <<cur, saved, ctx, euCount, euFlag, exc>>
     ELSE IF ctx # << >>
       THEN /\ ExitTopP /\ UNCHANGED <<frames, exc>>
     ELSE /\ exc' = FALSE                     \* reached the top level
          /\ UNCHANGED <<cur, saved, ctx, euCount, euFlag, frames>>
  /\ UNCHANGED <<viol, pool>> /\ Tick

\* the user catches the exception inside her own contexts
UCatch ==
  /\ exc /\ ~InLib
  /\ exc' = FALSE
  /\ UNCHANGED <<cur, saved, ctx, euCount, euFlag, frames, pool, viol>> /\ Tick

Next ==
  \/ \E u \in EUnits : UEnterEU(u) \/ UConstruct(u)
  \/ \E i \in 1 .. MaxPool : UEnterObj(i)
  \/ \E u \in LUnits : UEnterLen(u)
  \/ UExit
  \/ \E r \in Routines : UCall(r)
  \/ URaise \/ LStep \/ LReturn \/ LRaise \/ Unwind \/ UCatch

Spec == Init /\ [][Next]_vars

Bounded == steps < MaxSteps

(* ------------------------------- properties ---------------------------- *)
EUCtx == {i \in 1 .. Len(ctx) : ctx[i].kind = "eu"}

CountFlagConsistent ==
  /\ euCount = Cardinality(EUCtx)
  /\ euFlag <=> (euCount > 0)

\* Contexts restore: leaving a context re-establishes the units that were
\* active when it was entered (normal exit and exit by exception).
Restore ==
  [][ (Len(ctx') < Len(ctx)) =>
        (IF Last(ctx).kind = "eu" THEN cur'.energy = Last(ctx).atentry
                                  ELSE cur'.length = Last(ctx).atentry) ]_vars

\* the units the user is entitled to see: those of her innermost context
RECURSIVE InnerUnits(_, _, _)
InnerUnits(kind, i, dflt) ==
  IF i = 0 THEN dflt
  ELSE IF ctx[i].kind = kind /\ ~ctx[i].lib THEN ctx[i].units
  ELSE InnerUnits(kind, i - 1, dflt)

\* Transparency for the caller: whenever control is with the user (no routine
\* in flight, no exception propagating) the active units are those of the
\* user's innermost contexts -- no library call has changed them.
CallerUnitsPreserved ==
  (~InLib /\ ~exc) =>
     /\ cur.energy = InnerUnits("eu", Len(ctx), DefaultE)
     /\ cur.length = InnerUnits("len", Len(ctx), DefaultL)

\* every normal return of a routine found the units as at its call
ReturnsPreserveUnits == ~viol
=============================================================================
