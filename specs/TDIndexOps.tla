------------------------------ MODULE TDIndexOps ------------------------------
(* Operators shared by TDIndex.tla (model-checked, bound to the code by      *)
(* recorded index walks) and TDIndexProof.tla (TLAPS, every configuration).  *)
EXTENDS Integers

\* index the next read will use (rdmpropagator: indxR += stride, saturating
\* at cutoff_indx)
NextIndex(i, st, ct) == IF i < ct - 1 THEN i + st ELSE ct
\* inner (refined) steps of a propagation over np points with refinement nr
TotalSteps(np, nr) == (np - 1) * nr
\* the propagation axis lies inside the bath axis
FitsIn(np, nr, st, nb) == ((np - 1) * nr) * st <= nb - 1
=============================================================================
