---------------------------- MODULE ThermalTrace ----------------------------
(* Observations recorded from the real builders                            *)
(* (Aggregate.get_DensityMatrix, get_thermal_ReducedDensityMatrix,         *)
(* Molecule.get_thermal_ReducedDensityMatrix) checked against the          *)
(* ThermalState specification.  One observation is one request: the level  *)
(* energies of the defining basis on the grid of the specification         *)
(* (x[i] = floor((E_i - min E)/kT), capped), whether T was zero, and what  *)
(* the returned populations looked like: which ones are exactly 0.0, which *)
(* level carries the largest one, the order relation between them, whether *)
(* everything was finite, and whether the same request made inside basis   *)
(* contexts gave the same physical state.  The specification's own         *)
(* definitions (X, Zero, Min, ZeroTLevel, Regime, TagOfExcitonState) say   *)
(* what an observation must look like; U is the real threshold of exp().   *)
EXTENDS ThermalState, Json, IOUtils

Obs == JsonDeserialize(IOEnv.TRACE_FILE).traces

VARIABLE tid
tvars == <<e, kT, reqDepth, tid>>

O == Obs[tid][1]

TraceInit ==
  /\ tid \in 1 .. Len(Obs)
  /\ Len(Obs[tid][1].x) = NLev
  /\ e = [i \in Lev |-> Obs[tid][1].x[i]]
  /\ kT = IF Obs[tid][1].zeroT THEN 0 ELSE 1
  /\ reqDepth = Obs[tid][1].depth
TraceNext == UNCHANGED tvars
TraceSpec == TraceInit /\ [][TraceNext]_tvars

Slack == 45    \* p = w / sum(w) with sum(w) <= NLev may round a denormal to 0

\* populations the harness had to rotate into the defining basis carry
\* rounding residue: there "zero" means below 1e-12 (exp(-20) is above it)
NonZeroBelow == IF O.exact THEN U - Slack ELSE 20

\* the returned object is finite whenever the specification says it is defined
ObsFinite == (kT = 0 \/ ~AllZero) => O.finite
\* a population is exactly 0.0 when its weight underflows, and is not when
\* the weight is comfortably representable
ObsZeroPattern ==
  (kT > 0 /\ O.finite) =>
     \A i \in Lev : /\ (e[i] - Min(e) > U + 1) => O.zero[i]
                    /\ (e[i] - Min(e) <= NonZeroBelow) => ~O.zero[i]
\* populations are ordered as the exponents of the specification
ObsOrder ==
  (kT > 0 /\ O.finite) =>
     \A a, b \in Lev : (/\ X(a) # Zero /\ X(b) # Zero /\ X(a) < X(b)
                        /\ (O.exact \/ X(b) <= NonZeroBelow)) => O.ge[a][b]
\* T = 0: everything sits on lowest levels; the level the specification
\* designates (the first of the lowest ones) is among the populated ones
\* only if it is a lowest one
ObsZeroT ==
  (kT = 0 /\ O.finite) =>
     /\ e[O.top] = Min(e)
     /\ e[ZeroTLevel] = Min(e)
     /\ \A i \in Lev : e[i] # Min(e) => O.zero[i]
\* a state defined in the exciton basis and requested at depth reqDepth is
\* tagged with an exciton basis, hence the same physical state as the one
\* requested outside
ObsSameState == (TagOfExcitonState >= 1 /\ O.finite) => O.same
\* the regime the harness attributed to the request is the specification's
ObsRegime == O.regime = "" \/ O.regime = Regime
=============================================================================
