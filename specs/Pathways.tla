------------------------------- MODULE Pathways -------------------------------
(***************************************************************************)
(* Third-order Liouville pathways of an aggregate with a ground state, a   *)
(* one-exciton band and a two-exciton band                                 *)
(* (builders/aggregate_spectroscopy.py: liouville_pathways_3T and          *)
(* generate_R1g / R2g / R3g / R4g / R1f / R2f; spectroscopy/diagramatics.py *)
(* liouville_pathway.add_transition / add_transfer / build).                *)
(*                                                                         *)
(* The six generators are transcribed loop by loop (GenR1g ...).  Next,    *)
(* the set of ALL double-sided Feynman diagrams in the rephasing and the   *)
(* non-rephasing direction is defined from first principles (Diagrams):    *)
(* three field interactions with wave-vector signs (-,+,+) resp. (+,-,+),  *)
(* each a dipole-allowed transition between adjacent bands on the ket or   *)
(* the bra side, an optional transfer in the one-exciton band during the   *)
(* waiting time, and emission from the ket side into a population.  TLC    *)
(* checks over every pattern of bright / dark transitions and every        *)
(* transfer pattern in the bound that the generators produce exactly these *)
(* diagrams (R2g: plus diagrams of zero amplitude), well formed and with   *)
(* the right sign, and -- for uncoupled molecules with integer dipole      *)
(* vectors -- that excited-state absorption cancels every cross peak       *)
(* exactly, component by component of the orientational average.           *)
(*                                                                         *)
(* States: 0 = ground state, 1..ne one-exciton states, ne+1..ne+nf         *)
(* two-exciton states.  A pathway is                                       *)
(*   [t |-> <<to, from>> x 4,  s |-> side (+1 ket / -1 bra) x 4,           *)
(*    rel |-> << >> or <<fin_ket, fin_bra, sta_ket, sta_bra>>]             *)
(* exactly the arrays `transitions`, `sides`, `relaxations` of the         *)
(* library's liouville_pathway objects.                                    *)
(***************************************************************************)
EXTENDS Integers, Sequences, FiniteSets, FiniteSetsExt, TLC

CONSTANTS MaxNE,          \* one-exciton states 1..ne, ne <= MaxNE
          TransferModes,  \* subset of {"identity","population","coherence","all"}
          Variant         \* "code": the generators as they are.  Negative
                          \* controls: "r3g-ordered" (a generator that skips
                          \* half of its diagrams), "esa-side" (an interaction
                          \* of R1f* put on the wrong side)

VARIABLES ne, nf,
          b1,     \* bright ground <-> one-exciton transitions: subset of E
          b2,     \* bright one- <-> two-exciton transitions: set of <<f, e>>
          tr      \* non-zero elements of the evolution superoperator in the
                  \* one-exciton band: set of <<d_ket, d_bra, e_ket, e_bra>>
cvars == <<ne, nf, b1, b2, tr>>

E == 1 .. ne
F == (ne + 1) .. (ne + nf)
States == 0 .. (ne + nf)
Band(x) == IF x = 0 THEN 0 ELSE IF x <= ne THEN 1 ELSE 2

Br(x, y) == \/ (x = 0 /\ y \in b1) \/ (y = 0 /\ x \in b1)
            \/ <<x, y>> \in b2 \/ <<y, x>> \in b2

Identity == {<<a, b, a, b>> : a \in E, b \in E}
PopTransfer == Identity \cup {<<d, d, e, e>> : d \in E, e \in E}
CohTransfer == Identity \cup {<<a, b, b, a>> : a \in E, b \in E}
AllTransfer == {<<a, b, c, d>> : a \in E, b \in E, c \in E, d \in E}
Transfer(m) == CASE m = "identity" -> Identity [] m = "population" -> PopTransfer
                 [] m = "coherence" -> CohTransfer [] m = "all" -> AllTransfer

\* two levels so that TLC's workers share the configurations: the root
\* fixes the size, its successors are all bright / dark / transfer patterns
Init ==
  /\ ne \in 1 .. MaxNE
  /\ nf = (ne * (ne - 1)) \div 2
  /\ b1 = {} /\ b2 = {} /\ tr = {}
Choose1 ==                      \* level 1: ground-state brightness, transfer
  /\ tr = {}
  /\ b1' \in SUBSET E
  /\ \E m \in TransferModes : tr' = Transfer(m)
  /\ b2' = {<<0, 0>>}           \* marker: not chosen yet
  /\ UNCHANGED <<ne, nf>>
Choose2 ==                      \* level 2: brightness of the e <-> f transitions
  /\ b2 = {<<0, 0>>}
  /\ b2' \in SUBSET (F \X E)
  /\ UNCHANGED <<ne, nf, b1, tr>>
Next == Choose1 \/ Choose2
Spec == Init /\ [][Next]_cvars
Chosen == tr # {} /\ b2 # {<<0, 0>>}

(* ------------------- the generators, loop by loop ---------------------- *)
P(tt, ss, rr) == [t |-> tt, s |-> ss, rel |-> rr]

GenR1g == { P(<< <<i2e, 0>>, <<i3e, 0>>, <<0, i3d>>, <<0, i2d>> >>,
              <<1, -1, -1, 1>>, <<i2d, i3d, i2e, i3e>>) :
            <<i2e, i3e, i2d, i3d>> \in
              { q \in E \X E \X E \X E :
                  /\ Br(q[1], 0) /\ Br(q[2], 0)
                  /\ <<q[3], q[4], q[1], q[2]>> \in tr
                  /\ Br(0, q[4]) /\ Br(0, q[3]) } }

\* (the dipole test of generate_R2g looks at the states BEFORE the transfer)
GenR2g == { P(<< <<i2e, 0>>, <<i3e, 0>>, <<0, i2d>>, <<0, i3d>> >>,
              <<-1, 1, -1, 1>>, <<i3d, i2d, i3e, i2e>>) :
            <<i2e, i3e, i2d, i3d>> \in
              { q \in E \X E \X E \X E :
                  /\ Br(q[1], 0) /\ Br(q[2], 0)
                  /\ <<q[4], q[3], q[2], q[1]>> \in tr
                  /\ Br(0, q[1]) /\ Br(0, q[2]) } }

GenR3g == { P(<< <<i2e, 0>>, <<0, i2e>>, <<i4e, 0>>, <<0, i4e>> >>,
              <<-1, -1, 1, 1>>, << >>) :
            <<i2e, i4e>> \in
              { q \in E \X E : /\ Br(q[1], 0) /\ Br(0, q[1])
                               /\ Br(q[2], 0) /\ Br(0, q[2])
                               /\ (Variant = "r3g-ordered" => q[1] <= q[2]) } }

GenR4g == { P(<< <<i2e, 0>>, <<0, i2e>>, <<i4e, 0>>, <<0, i4e>> >>,
              <<1, 1, 1, 1>>, << >>) :
            <<i2e, i4e>> \in
              { q \in E \X E : /\ Br(q[1], 0) /\ Br(0, q[1])
                               /\ Br(q[2], 0) /\ Br(0, q[2]) } }

GenR1f == { P(<< <<q[1], 0>>, <<q[2], 0>>, <<q[5], q[4]>>, <<q[3], q[5]>> >>,
              IF Variant = "esa-side" THEN <<-1, 1, -1, 1>> ELSE <<-1, 1, 1, 1>>,
              <<q[4], q[3], q[2], q[1]>>) :
            q \in { q \in E \X E \X E \X E \X F :       \* i2e i3e i2d i3d i4f
                  /\ Br(q[1], 0) /\ Br(q[2], 0)
                  /\ <<q[4], q[3], q[2], q[1]>> \in tr
                  /\ Br(q[5], q[4]) /\ Br(q[3], q[5]) } }

GenR2f == { P(<< <<q[1], 0>>, <<q[2], 0>>, <<q[5], q[3]>>, <<q[4], q[5]>> >>,
              <<1, -1, 1, 1>>, <<q[3], q[4], q[1], q[2]>>) :
            q \in { q \in E \X E \X E \X E \X F :       \* i2e i3e i2d i3d i4f
                  /\ Br(q[1], 0) /\ Br(q[2], 0)
                  /\ <<q[3], q[4], q[1], q[2]>> \in tr
                  /\ Br(q[5], q[3]) /\ Br(q[4], q[5]) } }

Gen(name) == CASE name = "R1g" -> GenR1g [] name = "R2g" -> GenR2g
               [] name = "R3g" -> GenR3g [] name = "R4g" -> GenR4g
               [] name = "R1f*" -> GenR1f [] name = "R2f*" -> GenR2f
Names == {"R1g", "R2g", "R3g", "R4g", "R1f*", "R2f*"}
GenDir(dir) == IF dir = "R" THEN GenR2g \cup GenR3g \cup GenR1f
               ELSE GenR1g \cup GenR4g \cup GenR2f

(* --------------- replay of a pathway (diagramatics.py) ----------------- *)
\* state of the diagram after the first k interactions (transfer applied
\* after the second one); <<ket, bra>>; <<-1,-1>> if an interaction does not
\* start from the current state (the library raises)
Bad == <<-1, -1>>
Step(cur, tk, sk) ==
  IF cur = Bad THEN Bad
  ELSE IF sk = 1 THEN (IF cur[1] = tk[2] THEN <<tk[1], cur[2]>> ELSE Bad)
  ELSE (IF cur[2] = tk[2] THEN <<cur[1], tk[1]>> ELSE Bad)
Relax(cur, rel) ==
  IF rel = << >> \/ cur = Bad THEN cur
  ELSE IF cur = <<rel[3], rel[4]>> THEN <<rel[1], rel[2]>> ELSE Bad
After(p, k) ==
  LET c1 == Step(<<0, 0>>, p.t[1], p.s[1])
      c2 == Relax(Step(c1, p.t[2], p.s[2]), p.rel)
      c3 == Step(c2, p.t[3], p.s[3])
      c4 == Step(c3, p.t[4], p.s[4])
  IN  CASE k = 1 -> c1 [] k = 2 -> c2 [] k = 3 -> c3 [] k = 4 -> c4

WellFormed(p) == /\ After(p, 4) # Bad
                 /\ After(p, 4)[1] = After(p, 4)[2]          \* a population
AllBright(p) == \A k \in 1 .. 4 : Br(p.t[k][1], p.t[k][2])
Sign(p) == p.s[1] * p.s[2] * p.s[3] * p.s[4]

(* ------------- all diagrams of a direction, from first principles ------ *)
\* wave-vector sign of an interaction: absorption on the ket / emission on
\* the bra carry +k, emission on the ket / absorption on the bra carry -k
KSign(side, from, to) ==
  IF Band(to) = Band(from) + 1 THEN side ELSE 0 - side

Inter(cur, want) ==
  { x \in {1, -1} \X States :
      LET from == IF x[1] = 1 THEN cur[1] ELSE cur[2]
          to == x[2]
      IN  /\ (Band(to) - Band(from)) \in {1, -1}
          /\ Br(from, to)
          /\ KSign(x[1], from, to) = want }
From(cur, x) == IF x[1] = 1 THEN cur[1] ELSE cur[2]
Do(cur, x) == IF x[1] = 1 THEN <<x[2], cur[2]>> ELSE <<cur[1], x[2]>>

\* waiting time: transfer inside the one-exciton band; nothing in the ground
\* state
Waits(cur) ==
  IF Band(cur[1]) = 1 /\ Band(cur[2]) = 1
    THEN { <<q[1], q[2], cur[1], cur[2]>> :
             q \in {q \in E \X E : <<q[1], q[2], cur[1], cur[2]>> \in tr} }
  ELSE IF cur = <<0, 0>> THEN { << >> }
  ELSE { }

DirSigns(dir) == IF dir = "R" THEN <<-1, 1, 1>> ELSE <<1, -1, 1>>

Diagrams(dir) ==
  UNION { UNION { UNION { UNION {
    { P(<< <<x1[2], 0>>, <<x2[2], From(Do(<<0, 0>>, x1), x2)>>,
           <<x3[2], From(Relax(Do(Do(<<0, 0>>, x1), x2), w), x3)>>,
           <<x4, Do(Relax(Do(Do(<<0, 0>>, x1), x2), w), x3)[1]>> >>,
        <<x1[1], x2[1], x3[1], 1>>, w) :
      \* signal: emission from the ket side into a population
      x4 \in { y \in States :
                 LET c3 == Do(Relax(Do(Do(<<0, 0>>, x1), x2), w), x3)
                 IN  /\ Band(y) = Band(c3[1]) - 1 /\ Br(c3[1], y)
                     /\ y = c3[2] } } :
    x3 \in Inter(Relax(Do(Do(<<0, 0>>, x1), x2), w), DirSigns(dir)[3]) } :
    w \in Waits(Do(Do(<<0, 0>>, x1), x2)) } :
    x2 \in Inter(Do(<<0, 0>>, x1), DirSigns(dir)[2]) } :
    x1 \in Inter(<<0, 0>>, DirSigns(dir)[1]) }

(* ------------------------------ properties ----------------------------- *)
\* nothing with a non-zero amplitude is missed
Complete == Chosen => \A dir \in {"R", "NR"} : Diagrams(dir) \subseteq GenDir(dir)

\* everything generated is a proper diagram; whatever is generated beyond
\* the diagrams of the direction contains a dark transition (zero amplitude)
Sound == Chosen => \A dir \in {"R", "NR"} : \A p \in GenDir(dir) :
            /\ WellFormed(p)
            /\ (p \notin Diagrams(dir)) => ~AllBright(p)

\* five of the six generators are exact
ExactExceptR2g == Chosen =>
  /\ GenR1g \cup GenR4g \cup GenR2f = Diagrams("NR")
  /\ (GenR3g \cup GenR1f) \subseteq Diagrams("R")
  /\ \A p \in GenR2g : (p \notin Diagrams("R")) =>
        \E k \in 3 .. 4 : ~Br(p.t[k][1], p.t[k][2])

\* ground-state bleach and stimulated emission come with +, excited-state
\* absorption with -
Signs == /\ \A p \in GenR1g \cup GenR2g \cup GenR3g \cup GenR4g : Sign(p) = 1
         /\ \A p \in GenR1f \cup GenR2f : Sign(p) = -1

\* the six families are disjoint (no diagram is generated twice)
Disjoint == \A a, b \in Names : a # b => Gen(a) \cap Gen(b) = {}

\* anti-vacuity: with everything bright there are ne^2 diagrams of each
\* ground-state type
Counts == (Chosen /\ b1 = E /\ tr = Identity) =>
             /\ Cardinality(GenR3g) = ne * ne /\ Cardinality(GenR4g) = ne * ne
             /\ Cardinality(GenR1g) = ne * ne /\ Cardinality(GenR2g) = ne * ne
=============================================================================
