CONSTANTS
  MinNt = 8
  MaxNt = 40
  Pipeline = "default,flip"
SPECIFICATION Spec
INVARIANT LineOnItsEnergy
INVARIANT ExactOnGrid
CHECK_DEADLOCK FALSE
