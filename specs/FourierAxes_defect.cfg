CONSTANTS
  MaxN = 10
  InputShift = "fftshift"
SPECIFICATION Spec
INVARIANT ForwardAndInverseAreDefiningSums
INVARIANT UpperHalfIsDefiningSum
INVARIANT AxesRoundTrip
CHECK_DEADLOCK FALSE
