CONSTANTS
  Dim = 3
  Values = {0}
  MaxOps = 0
SPECIFICATION TraceSpec
INVARIANT Accepting
INVARIANT TraceColumnSumsZero
INVARIANT AssignedKept
CHECK_DEADLOCK FALSE
