CONSTANTS
  MinNt = 8
  MaxNt = 40
  Pipeline = "n=2Nt,roll"
SPECIFICATION Spec
INVARIANT LineOnItsEnergy
INVARIANT ExactOnGrid
CHECK_DEADLOCK FALSE
