CONSTANTS
  Variant = "r3g-ordered"
  MaxNE = 2
  TransferModes = {"identity"}
  NSites = 2
  Comp <- CompSym
INIT UInit
NEXT UNext
INVARIANT CrossPeaksCancel
INVARIANT DiagonalIsMonomer
INVARIANT NonVacuous
CHECK_DEADLOCK FALSE
