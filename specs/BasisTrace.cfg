CONSTANTS
  Objs <- TraceObjs
  CtxOps <- TraceObjs
  MaxDepth = 12
  MaxSteps = 0
  ExitPopsTrans = TRUE
SPECIFICATION TraceSpec
INVARIANT Accepting
INVARIANT Bookkeeping
INVARIANT NoLostObject
INVARIANT Restored
INVARIANT Frozen
PROPERTY LibraryCallsRestoreBookkeeping
PROPERTY LibraryCallsRestoreProtection
CHECK_DEADLOCK FALSE
