---------------------------- MODULE TDIndexTrace ----------------------------
(* Validates the sequence of time indices with which the real propagator   *)
(* slices a time-dependent relaxation tensor (recorded through an          *)
(* instrumented array) against TDIndex.                                    *)
EXTENDS TDIndex, Json, IOUtils

Traces == JsonDeserialize(IOEnv.TRACE_FILE).traces
VARIABLES tid, l
tvars == <<vars, tid, l>>
Ev == Traces[tid][l]
Cfg(t) == Traces[t][1]

TraceInit ==
  /\ tid \in 1 .. Len(Traces) /\ l = 2
  /\ ntprop = Cfg(tid).ntprop /\ nref = Cfg(tid).nref
  /\ stride = Cfg(tid).stride /\ cut = Cfg(tid).cut /\ ntens = Cfg(tid).ntens
  /\ k = 0 /\ indxR = 1 /\ lastRead = -1

TraceRead == /\ Ev.ev = "read" /\ Read /\ lastRead' = Ev.idx

TraceNext == /\ l <= Len(Traces[tid]) /\ l' = l + 1 /\ UNCHANGED tid /\ TraceRead
TraceSpec == TraceInit /\ [][TraceNext]_tvars
Accepting == l <= Len(Traces[tid]) => ENABLED TraceNext
\* the propagator performed exactly the specified number of reads
Complete == (l > Len(Traces[tid])) => k = Total
=============================================================================
