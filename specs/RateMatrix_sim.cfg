CONSTANTS
  Dim = 3
  Values = {0, 1, 2, 5, 7}
  MaxOps = 12
SPECIFICATION Spec
CONSTRAINT Bounded
INVARIANT ColumnSumsZero
INVARIANT AssignedKept
CHECK_DEADLOCK FALSE
