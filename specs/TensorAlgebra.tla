---------------------------- MODULE TensorAlgebra ----------------------------
(***************************************************************************)
(* Algebra of second-order relaxation tensors over Gaussian integers.      *)
(*                                                                         *)
(* Transcribed from                                                        *)
(*   redfieldtensor._loopit / _convert_operators_2_tensor  (RTensor)       *)
(*   redfieldtensor.apply, operator form                   (ApplyOp)       *)
(*   lindbladform._implementation          (L = (rate/2) K, Ld = L^T)      *)
(*   relaxationtensor.updateStructure                      (Complete)      *)
(*   foerstertensor.add_dephasing                          (Dephase)       *)
(*   relaxationtensor.secularize / secular.py              (Sec)           *)
(*   superoperator.transform / relaxationtensor.transform  (Transform)     *)
(*                                                                         *)
(* All maps are (multi)linear in their matrix arguments, so identities     *)
(* checked on all tuples of basis matrices E_ij, i E_ij hold for all real  *)
(* K and complex L, rho of that dimension.                                 *)
(***************************************************************************)
EXTENDS Integers, Sequences, FiniteSets, TLC, Json, IOUtils

CONSTANTS Dim,          \* matrix dimension n
          LdMode,       \* "dagger": Ld = L^+ (the code); "transpose": variant
                        \*   without conjugation (negative control)
          DephMode,     \* "conj": h_a + conj(h_b) (the code, after the repair
                        \*   in /repo); "plain": h_a + h_b (negative control)
          TransMode     \* "transpose": second index pair transformed with
                        \*   S^T..S^-T (the code, after the repair in /repo);
                        \*   "inverse": S^-1..S (negative control)

Idx == 1 .. Dim

(* ----------------------------- Gaussian integers ----------------------- *)
C0 == <<0, 0>>
C1 == <<1, 0>>
CI == <<0, 1>>
Cadd(x, y) == <<x[1] + y[1], x[2] + y[2]>>
Csub(x, y) == <<x[1] - y[1], x[2] - y[2]>>
Cmul(x, y) == <<x[1] * y[1] - x[2] * y[2], x[1] * y[2] + x[2] * y[1]>>
Cconj(x) == <<x[1], 0 - x[2]>>
Cneg(x) == <<0 - x[1], 0 - x[2]>>

\* sum_{x in 1..Dim} f[x]   (f a function on Idx)
CsumIdx(f) == LET S[i \in 0 .. Dim] == IF i = 0 THEN C0 ELSE Cadd(S[i - 1], f[i])
              IN S[Dim]
\* sum over pairs
CsumIdx2(g) == CsumIdx([x \in Idx |-> CsumIdx([y \in Idx |-> g[x][y]])])

(* -------------------------------- matrices ----------------------------- *)
Mat(f(_, _)) == [a \in Idx |-> [b \in Idx |-> f(a, b)]]
ZeroM == [a \in Idx |-> [b \in Idx |-> C0]]
E(i, j, u) == [a \in Idx |-> [b \in Idx |-> IF a = i /\ b = j THEN u ELSE C0]]
MMul(A, B) == [a \in Idx |-> [b \in Idx |->
                 CsumIdx([x \in Idx |-> Cmul(A[a][x], B[x][b])])]]
MAdd(A, B) == [a \in Idx |-> [b \in Idx |-> Cadd(A[a][b], B[a][b])]]
MSub(A, B) == [a \in Idx |-> [b \in Idx |-> Csub(A[a][b], B[a][b])]]
MT(A) == [a \in Idx |-> [b \in Idx |-> A[b][a]]]
MDag(A) == [a \in Idx |-> [b \in Idx |-> Cconj(A[b][a])]]

LdOf(L) == IF LdMode = "dagger" THEN MDag(L) ELSE MT(L)

(* --------------------- tensor of one bath component -------------------- *)
\* RR[a,b,c,d] += Km[a,c]*Ld[d,b] + Lm[a,c]*Kd[d,b]
\*                - (b = d) KdLm[a,c] - (a = c) LdKm[d,b]
RTensor(K, L) ==
  LET Kd == MT(K)  Ld == LdOf(L)
      KdL == MMul(Kd, L)  LdK == MMul(Ld, K)
  IN [a \in Idx |-> [b \in Idx |-> [c \in Idx |-> [d \in Idx |->
        Csub(Csub(Cadd(Cmul(K[a][c], Ld[d][b]), Cmul(L[a][c], Kd[d][b])),
                  IF b = d THEN KdL[a][c] ELSE C0),
             IF a = c THEN LdK[d][b] ELSE C0)]]]]

\* operator form (redfieldtensor.apply)
ApplyOp(K, L, rho) ==
  LET Kd == MT(K)  Ld == LdOf(L) IN
  MSub(MSub(MAdd(MMul(K, MMul(rho, Ld)), MMul(L, MMul(rho, Kd))),
            MMul(MMul(Kd, L), rho)),
       MMul(rho, MMul(Ld, K)))

ApplyTensor(R, rho) ==
  [a \in Idx |-> [b \in Idx |->
     CsumIdx2([c \in Idx |-> [d \in Idx |-> Cmul(R[a][b][c][d], rho[c][d])]])]]

(* ------------------------------ the identities ------------------------- *)
TracePres(R) ==
  \A c, d \in Idx : CsumIdx([a \in Idx |-> R[a][a][c][d]]) = C0
HermPres(R) ==
  \A a, b, c, d \in Idx : Cconj(R[a][b][c][d]) = R[b][a][d][c]

(* -------------------------- secularisation ----------------------------- *)
SecKeep(a, b, c, d) == (a = b /\ c = d) \/ (a = c /\ b = d)
Sec(R) == [a \in Idx |-> [b \in Idx |-> [c \in Idx |-> [d \in Idx |->
             IF SecKeep(a, b, c, d) THEN R[a][b][c][d] ELSE C0]]]]
SecClauses(R) ==
  /\ Sec(Sec(R)) = Sec(R)
  /\ \A a, b \in Idx : /\ Sec(R)[a][a][b][b] = R[a][a][b][b]
                       /\ Sec(R)[a][b][a][b] = R[a][b][a][b]
  /\ TracePres(R) => TracePres(Sec(R))
  /\ HermPres(R) => HermPres(Sec(R))

(* ---------------------------- basis transformation --------------------- *)
\* monomial unitary matrices with Gaussian-integer entries: S^-1 = S^+
PermDiag(p, u) == [a \in Idx |-> [b \in Idx |-> IF p[b] = a THEN u[b] ELSE C0]]
Transform(R, S) ==
  LET S1 == MDag(S)
      \* first index pair:  S^-1 R[:,:,c,d] S
      \* second index pair: S^T R[a,b,:,:] S^-T   ("transpose")
      \*                or  S^-1 R[a,b,:,:] S      ("inverse")
      Lft == IF TransMode = "transpose" THEN MT(S) ELSE S1
      Rgt == IF TransMode = "transpose" THEN MT(S1) ELSE S
      \* two half-steps, exactly as the code does
      Half == [a \in Idx |-> [b \in Idx |-> [c \in Idx |-> [d \in Idx |->
                 CsumIdx2([i \in Idx |-> [j \in Idx |->
                    Cmul(Cmul(S1[a][i], R[i][j][c][d]), S[j][b])]])]]]]
  IN [a \in Idx |-> [b \in Idx |-> [c \in Idx |-> [d \in Idx |->
       CsumIdx2([k \in Idx |-> [l \in Idx |->
          Cmul(Cmul(Lft[c][k], Half[a][b][k][l]), Rgt[l][d])]])]]]]
TransformM(A, S) == MMul(MDag(S), MMul(A, S))

\* transforming the tensor and the state = transforming the result
Covariant(R, S, rho) ==
  ApplyTensor(Transform(R, S), TransformM(rho, S)) = TransformM(ApplyTensor(R, rho), S)

(* -------------- rate structure (updateStructure) and dephasing --------- *)
\* rates k[i][j] (i # j) doubled so that the mean of two depopulation rates
\* stays an integer
Complete(k) ==
  LET dep(n) == 0 - (2 * CsumIdx([i \in Idx |-> IF i = n THEN C0 ELSE <<k[i][n], 0>>])[1])
  IN [a \in Idx |-> [b \in Idx |-> [c \in Idx |-> [d \in Idx |->
       IF a = b /\ c = d /\ a # c THEN <<2 * k[a][c], 0>>
       ELSE IF a = b /\ c = d THEN <<dep(a), 0>>
       ELSE IF a = c /\ b = d THEN <<(dep(a) + dep(b)) \div 2, 0>>
       ELSE C0]]]]

Dephase(R, h) ==
  [a \in Idx |-> [b \in Idx |-> [c \in Idx |-> [d \in Idx |->
     IF a = c /\ b = d /\ a # b
       THEN Csub(R[a][b][c][d],
                 Cadd(h[a], IF DephMode = "conj" THEN Cconj(h[b]) ELSE h[b]))
       ELSE R[a][b][c][d]]]]]

(* --------------------------------- machine ----------------------------- *)
Units == {C1, CI}
RealBasis == {E(i, j, C1) : i, j \in Idx}
CplxBasis == {E(i, j, u) : i, j \in Idx, u \in Units}

Perms == {p \in [Idx -> Idx] : \A x, y \in Idx : x # y => p[x] # p[y]}
SSet == {PermDiag(p, [b \in Idx |-> C1]) : p \in Perms}
        \cup {PermDiag([b \in Idx |-> b], [b \in Idx |-> IF b = 2 THEN CI ELSE C1]),
              PermDiag([b \in Idx |-> b], [b \in Idx |-> IF b = 1 THEN Cneg(C1) ELSE C1])}

\* A two-level tree (root -> K chosen -> L chosen) so that TLC's workers
\* share the evaluation of the invariants on the leaves.
VARIABLES K, L, phase
AnyReal == E(1, 1, C1)
Init == K = AnyReal /\ L = AnyReal /\ phase = "root"
Next ==
  \/ /\ phase = "root" /\ phase' = "K" /\ K' \in RealBasis /\ L' = L
  \/ /\ phase = "K" /\ phase' = "leaf" /\ L' \in CplxBasis /\ K' = K
Spec == Init /\ [][Next]_<<K, L, phase>>
Leaf == phase = "leaf"

R == RTensor(K, L)

TracePreserved == Leaf => TracePres(R)
HermiticityPreserved == Leaf => HermPres(R)
OperatorFormEqualsTensorForm ==
  Leaf => \A rho \in RealBasis : ApplyOp(K, L, rho) = ApplyTensor(R, rho)
SecularClauses == Leaf => SecClauses(R)
TransformPreserves ==
  Leaf => \A S \in SSet : /\ TracePres(Transform(R, S)) /\ HermPres(Transform(R, S))
TransformCovariant ==
  Leaf => \A S \in SSet : \A rho \in RealBasis : Covariant(R, S, rho)

\* rate-structure facts do not depend on (K, L): evaluated as ASSUMEs
RateSet == [Idx -> [Idx -> (IF Dim <= 2 THEN {0, 1, 2} ELSE {0, 1})]]
ASSUME \A k \in RateSet : TracePres(Complete(k)) /\ HermPres(Complete(k))
HSet == [Idx -> {C0, C1, CI}]
DephaseOK ==
  (phase = "root") => \A h \in HSet : LET T == Dephase(Complete([i \in Idx |-> [j \in Idx |-> 1]]), h)
                  IN TracePres(T) /\ HermPres(T)

(* --------------------------- table for the harness --------------------- *)
TableDir == IF "TABLE_DIR" \in DOMAIN IOEnv THEN IOEnv.TABLE_DIR ELSE ""
Pos(M) == CHOOSE p \in Idx \X Idx : M[p[1]][p[2]] # C0
KeyOf == LET pk == Pos(K)  pl == Pos(L)
         IN ToString(pk[1]) \o ToString(pk[2]) \o "_" \o ToString(pl[1])
            \o ToString(pl[2]) \o (IF L[pl[1]][pl[2]] = C1 THEN "r" ELSE "i")
ExportTable ==
  (Leaf /\ TableDir # "") =>
    JsonSerialize(TableDir \o "/R" \o ToString(Dim) \o "_" \o KeyOf \o ".json",
                  [k |-> Pos(K), l |-> Pos(L),
                   lim |-> (L[Pos(L)[1]][Pos(L)[2]] = CI),
                   r |-> R])
=============================================================================
