CONSTANTS
  Objs = {"h", "a", "b"}
  CtxOps = {"h", "a"}
  MaxDepth = 3
  MaxSteps = 14
  ExitPopsTrans = TRUE
  SaveNormalises = TRUE
SPECIFICATION SLSpec
CONSTRAINT Bounded
INVARIANT Bookkeeping
INVARIANT LoadedObjectIsManaged
CHECK_DEADLOCK FALSE
