CONSTANTS
  NBaths = {1, 2, 3}
  Depths = {0, 1, 2, 3}
SPECIFICATION Spec
INVARIANT CompleteOnce
INVARIANT LevelByLevel
INVARIANT LinksInverse
INVARIANT NeighbourTests
INVARIANT ExportTable
PROPERTY Terminates
CHECK_DEADLOCK FALSE
