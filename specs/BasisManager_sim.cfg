CONSTANTS
  Objs = {"h", "a", "b"}
  CtxOps = {"h", "a"}
  MaxDepth = 3
  MaxSteps = 15
  ExitPopsTrans = TRUE
SPECIFICATION Spec
CONSTRAINT Bounded
INVARIANT Bookkeeping
CHECK_DEADLOCK FALSE
