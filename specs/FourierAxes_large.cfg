CONSTANTS
  MaxN = 16
  InputShift = "ifftshift"
SPECIFICATION Spec
INVARIANT ForwardAndInverseAreDefiningSums
INVARIANT UpperHalfIsDefiningSum
INVARIANT AxesRoundTrip
INVARIANT ExportTable
CHECK_DEADLOCK FALSE
