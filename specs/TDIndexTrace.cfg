CONSTANTS
  MaxNtProp = 0
  MaxNref = 0
  MaxStride = 0
  MaxNtBath = 0
SPECIFICATION TraceSpec
INVARIANT Accepting
INVARIANT Complete
INVARIANT ReadInRange
INVARIANT SampleNearStateTime
CHECK_DEADLOCK FALSE
