-------------------------- MODULE RateMatrixTrace --------------------------
(* Validates batches of traces recorded from the real RateMatrix against   *)
(* the RateMatrix specification.  Every event carries the complete         *)
(* projected state, so each trace is a linear chain: a state from which the*)
(* next logged event cannot be explained violates `Accepting`.             *)
EXTENDS RateMatrix, Json, IOUtils, TLC

Traces == JsonDeserialize(IOEnv.TRACE_FILE).traces

VARIABLES tid,   \* which trace of the batch
          l      \* next event to be explained

tvars == <<K, assigned, nops, last, tid, l>>

Ev == Traces[tid][l]

OffDiag(M) == [n \in Idx |-> [m \in Idx |-> IF n = m THEN None ELSE M[n][m]]]

TraceInit ==
  /\ tid \in 1 .. Len(Traces)
  /\ l = 2
  /\ Traces[tid][1].ev = "init"
  /\ K = Traces[tid][1].K
  /\ assigned = OffDiag(Traces[tid][1].K)
  /\ nops = 0
  /\ last = "init"

TraceSetRate ==
  /\ Ev.ev = "set_rate" /\ ~Ev.raised
  /\ SetRate(Ev.n, Ev.m, Ev.v)
  /\ K' = Ev.K                      \* the logged matrix is the specified one

TraceRefused ==
  /\ Ev.ev = "set_rate" /\ Ev.raised
  /\ Ev.n = Ev.m
  /\ SetDiagonal(Ev.n, Ev.v)
  /\ K' = Ev.K

TraceNext ==
  /\ l <= Len(Traces[tid])
  /\ l' = l + 1
  /\ UNCHANGED tid
  /\ (TraceSetRate \/ TraceRefused)

TraceSpec == TraceInit /\ [][TraceNext]_tvars

Accepting == l <= Len(Traces[tid]) => ENABLED TraceNext

\* column sums are asserted only for traces that start from a matrix with
\* zero column sums (the property's precondition)
TraceColumnSumsZero ==
  (\A m \in Idx : ColSum(Traces[tid][1].K, m) = 0) => ColumnSumsZero
=============================================================================
