------------------------------ MODULE AbsMapLink ------------------------------
(* TLC checks that the operators proved in AbsMapProof.tla (TLAPS, every Nt) *)
(* are the operators model-checked and bound to the code in AbsMap.tla.      *)
EXTENDS AbsMap

P == INSTANCE AbsMapProof

SameOperators ==
  /\ Pipeline = "n=2Nt,roll"
  /\ P!HfftPeak(nt, kappa) = HfftPeak
  /\ P!Shifted(nt, kappa) = Shifted
  /\ P!Reversed(nt, kappa) = Reversed
  /\ P!Landing(nt, kappa) = Landing
  /\ P!AxisIndex(nt, Landing) = AxisIndex(Landing)
=============================================================================
