CONSTANTS
  MaxSize = 6
  StartSet <- StartsLarge
  MaxLen = 9
  MaxLoops = 2
  TableFile = ""
  HonourStart = TRUE
SPECIFICATION Spec
INVARIANT TypeOK
INVARIANT NoDoubleWork
INVARIANT ReducedEqualsSerial
INVARIANT PartitionHere
PROPERTY Terminates
CHECK_DEADLOCK FALSE
