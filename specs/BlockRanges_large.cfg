CONSTANTS
  MaxSize = 6
  StartSet <- StartsLarge
  MaxLen = 9
  TableFile = ""
  HonourStart = TRUE
SPECIFICATION Spec
INVARIANT TypeOK
INVARIANT NoDoubleWork
INVARIANT ReducedEqualsSerial
INVARIANT PartitionHere
PROPERTY Terminates
CHECK_DEADLOCK FALSE
