-------------------------- MODULE PathwaysUncoupled --------------------------
(***************************************************************************)
(* Uncoupled molecules with integer transition-dipole vectors: the exciton *)
(* states are the molecules, the two-exciton states the pairs, the dipole  *)
(* of the transition  i -> (i,j)  is the dipole of molecule j, nothing is  *)
(* transferred during the waiting time.                                    *)
(*                                                                         *)
(* With the generators of Pathways.tla, TLC checks for every assignment of *)
(* dipole vectors in the bound that the response of the aggregate is the   *)
(* sum of the responses of the molecules as far as that is decided by the  *)
(* diagrams: at every cross peak (first interval at the frequency of       *)
(* molecule a, third interval at the frequency of molecule b # a), within  *)
(* every class of pathways that evolve alike during the waiting time, the  *)
(* signed orientational weights cancel -- separately for each of the three *)
(* components of the rank-four isotropic average, i.e. for every choice of *)
(* the four polarisations -- and on the diagonal exactly the pathways of   *)
(* the single molecule survive.                                            *)
(***************************************************************************)
EXTENDS Pathways

CONSTANTS NSites,     \* 2 or 3
          Comp        \* components of the integer dipole vectors, e.g. {-1,0,1}

VARIABLE dv          \* dv[e]: dipole vector of molecule e (sequence of 3 ints)
uvars == <<cvars, dv>>

\* (cfg files cannot contain negative literals)
CompSym == {-1, 0, 1}
CompPos == {0, 1}
CompMix == {-1, 0, 2}
Vecs == Comp \X Comp \X Comp
Zero == <<0, 0, 0>>
Dot(u, v) == u[1] * v[1] + u[2] * v[2] + u[3] * v[3]

\* two-exciton state number ne + k  <->  k-th pair in lexicographic order
RECURSIVE PairsFrom(_, _, _)
PairsFrom(n, i, j) ==
  IF i >= n THEN << >>
  ELSE IF j > n THEN PairsFrom(n, i + 1, i + 2)
  ELSE << <<i, j>> >> \o PairsFrom(n, i, j + 1)
Pairs == PairsFrom(NSites, 1, 2)
PairOf(f) == Pairs[f - NSites]
Other(f, e) == IF PairOf(f)[1] = e THEN PairOf(f)[2] ELSE PairOf(f)[1]
In(e, f) == e = PairOf(f)[1] \/ e = PairOf(f)[2]

UInit ==
  /\ ne = NSites /\ nf = Len(Pairs)
  /\ dv = [e \in 1 .. NSites |-> Zero]
  /\ b1 = {} /\ b2 = {} /\ tr = {}
\* two levels (see Pathways): the first molecule, then the others
UChoose1 ==
  /\ tr = {} /\ b2 = {}
  /\ \E v \in Vecs : dv' = [dv EXCEPT ![1] = v]
  /\ b2' = {<<0, 0>>}
  /\ UNCHANGED <<ne, nf, b1, tr>>
UChoose2 ==
  /\ b2 = {<<0, 0>>}
  /\ \E w \in [2 .. NSites -> Vecs] :
        LET d == [e \in E |-> IF e = 1 THEN dv[1] ELSE w[e]] IN
        /\ dv' = d
        /\ b1' = {e \in E : d[e] # Zero}
        /\ b2' = {<<f, e>> \in F \X E : In(e, f) /\ d[Other(f, e)] # Zero}
  /\ tr' = Identity
  /\ UNCHANGED <<ne, nf>>
UNext == UChoose1 \/ UChoose2
USpec == UInit /\ [][UNext]_uvars
Ready == tr # {}

\* dipole vector of a transition
DV(x, y) ==
  IF x = 0 THEN dv[y] ELSE IF y = 0 THEN dv[x]
  ELSE IF x \in F /\ y \in E /\ In(y, x) THEN dv[Other(x, y)]
  ELSE IF y \in F /\ x \in E /\ In(x, y) THEN dv[Other(y, x)]
  ELSE Zero
D(p, k) == DV(p.t[k][1], p.t[k][2])
\* the three components F4n of diagramatics.build
F4(p, q) ==
  CASE q = 1 -> Dot(D(p, 4), D(p, 3)) * Dot(D(p, 2), D(p, 1))
    [] q = 2 -> Dot(D(p, 4), D(p, 2)) * Dot(D(p, 3), D(p, 1))
    [] q = 3 -> Dot(D(p, 4), D(p, 1)) * Dot(D(p, 3), D(p, 2))

\* molecule whose frequency the first / third interval carries
W1(p) == p.t[1][1]
W3(p) == LET c == After(p, 3) IN
         IF c[2] = 0 THEN c[1] ELSE Other(c[1], c[2])
\* how the pathway evolves during the waiting time: ground state and
\* populations do not oscillate (class Pop), a coherence |x><y| oscillates with
\* the difference of the two molecular frequencies
Pop == <<0, 0>>
Class(p) == LET c == After(p, 2) IN IF c[1] = c[2] THEN Pop ELSE c

Weight(S, q) == MapThenSumSet(LAMBDA p : Sign(p) * F4(p, q), S)

Peak(dir, a, b, c) ==
  {p \in GenDir(dir) : W1(p) = a /\ W3(p) = b /\ Class(p) = c}

Classes == {Pop} \cup {c \in E \X E : c[1] # c[2]}

\* cross peaks vanish, class by class and component by component
CrossPeaksCancel ==
  Ready => \A dir \in {"R", "NR"} : \A a \in E, b \in E : a # b =>
             \A c \in Classes : \A q \in 1 .. 3 :
                Weight(Peak(dir, a, b, c), q) = 0

\* on the diagonal exactly the monomer's pathways are left: ground-state
\* bleach + stimulated emission of molecule a alone, |d_a|^4 each
DiagonalIsMonomer ==
  Ready => \A dir \in {"R", "NR"} : \A a \in E : \A q \in 1 .. 3 :
     /\ Weight(Peak(dir, a, a, Pop), q)
           = 2 * Dot(dv[a], dv[a]) * Dot(dv[a], dv[a])
     /\ \A c \in Classes \ {Pop} : Weight(Peak(dir, a, a, c), q) = 0

\* anti-vacuity: with two bright molecules the sums are over something
NonVacuous ==
  (Ready /\ \A e \in E : dv[e] # Zero) =>
     /\ Cardinality(Peak("R", 1, 2, Pop)) >= 2
     /\ Cardinality(Peak("R", 1, 2, <<2, 1>>)) >= 2
     /\ Cardinality(Peak("NR", 1, 2, Pop)) >= 2
=============================================================================
