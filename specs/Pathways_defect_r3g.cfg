CONSTANTS
  Variant = "r3g-ordered"
  MaxNE = 2
  TransferModes = {"identity", "population", "coherence", "all"}
SPECIFICATION Spec
INVARIANT Complete
INVARIANT Sound
INVARIANT ExactExceptR2g
INVARIANT Signs
INVARIANT Disjoint
INVARIANT Counts
CHECK_DEADLOCK FALSE
