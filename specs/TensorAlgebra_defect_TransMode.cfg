CONSTANTS
  Dim = 2
  LdMode = "dagger"
  DephMode = "conj"
  TransMode = "inverse"
SPECIFICATION Spec
INVARIANT TracePreserved
INVARIANT HermiticityPreserved
INVARIANT OperatorFormEqualsTensorForm
INVARIANT SecularClauses
INVARIANT TransformPreserves
INVARIANT TransformCovariant
INVARIANT DephaseOK
CHECK_DEADLOCK FALSE
