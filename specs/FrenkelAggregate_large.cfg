CONSTANTS
  MaxN = 5
SPECIFICATION Spec
INVARIANT OrderIsBandOrderedBijection
INVARIANT CodeRulesAreFrenkel
INVARIANT Structure
INVARIANT RelabellingCovariant
INVARIANT ExportTable
CHECK_DEADLOCK FALSE
