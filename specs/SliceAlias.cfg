CONSTANTS
  MaxDepth = 2
  MaxObjs = 3
  MaxSteps = 9
  AtCopies = TRUE
SPECIFICATION Spec
CONSTRAINT Bounded
INVARIANT RepMatchesTag
INVARIANT Restored
CHECK_DEADLOCK FALSE
