----------------------------- MODULE RateMatrix -----------------------------
(***************************************************************************)
(* Editing of a population-transfer rate matrix through set_rate           *)
(* (quantarhei/qm/liouvillespace/rates/ratematrix.py).                     *)
(* K[n][m] (n # m) is the rate m -> n; K[m][m] is minus the depopulation   *)
(* rate of m.  One action per public call; a refused call is an action     *)
(* that leaves the state unchanged and reports refusal.                    *)
(***************************************************************************)
EXTENDS Integers, Sequences, FiniteSets

CONSTANTS Dim,        \* matrix dimension
          Values,     \* rate values that may be assigned
          MaxOps      \* bound on the history length (state constraint)

Idx == 1 .. Dim
None == -1000000     \* "never assigned" marker of the ghost variable (outside the value range)

VARIABLES K,          \* the stored matrix, K[n][m]
          assigned,   \* ghost: last value assigned to (n,m), or None
          nops,       \* history length
          last        \* outcome of the last call: "ok" | "refused" | "init"

vars == <<K, assigned, nops, last>>

Zero == [n \in Idx |-> [m \in Idx |-> 0]]

Init ==
  /\ K = Zero
  /\ assigned = [n \in Idx |-> [m \in Idx |-> None]]
  /\ nops = 0
  /\ last = "init"

(* set_rate((n,m), v), n # m : transcription of the four assignments      *)
SetRateEffect(Kold, n, m, v) ==
  LET orig == Kold[n][m]
      K1 == [Kold EXCEPT ![n][m] = v]
      K2 == [K1 EXCEPT ![m][m] = @ + orig]
  IN  [K2 EXCEPT ![m][m] = @ - v]

SetRate(n, m, v) ==
  /\ n # m
  /\ K' = SetRateEffect(K, n, m, v)
  /\ assigned' = [assigned EXCEPT ![n][m] = v]
  /\ nops' = nops + 1
  /\ last' = "ok"

(* set_rate((n,n), v) raises before touching anything                      *)
SetDiagonal(n, v) ==
  /\ UNCHANGED <<K, assigned>>
  /\ nops' = nops + 1
  /\ last' = "refused"

SetRateAny == \E n, m \in Idx, v \in Values : SetRate(n, m, v)
SetDiagonalAny == \E n \in Idx, v \in Values : SetDiagonal(n, v)

Next == SetRateAny \/ SetDiagonalAny

Spec == Init /\ [][Next]_vars

Bounded == nops < MaxOps

(* ------------------------------ properties ----------------------------- *)
ColSum(M, m) ==
  LET S[n \in 0 .. Dim] == IF n = 0 THEN 0 ELSE S[n - 1] + M[n][m]
  IN  S[Dim]

ColumnSumsZero == \A m \in Idx : ColSum(K, m) = 0

AssignedKept ==
  \A n, m \in Idx : n # m =>
     K[n][m] = (IF assigned[n][m] = None THEN 0 ELSE assigned[n][m])

DiagonalIsDepopulation ==
  \A m \in Idx : K[m][m] <= 0

RefusalChangesNothing ==
  [][last' = "refused" => (K' = K /\ assigned' = assigned)]_vars
=============================================================================
