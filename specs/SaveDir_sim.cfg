CONSTANTS
  Tags = {1, 2, 3, 5}
  Names = {101, 102}
  NameBase = 100
  MaxSaves = 6
  AutoRule = "max+1"
SPECIFICATION Spec
INVARIANT NothingLost
CHECK_DEADLOCK FALSE
