------------------------------- MODULE TDIndex -------------------------------
(***************************************************************************)
(* Walk of the time index of a time-dependent relaxation tensor during     *)
(* propagation (rdmpropagator.__propagate_short_exp_with_TD_relaxation):   *)
(*   indxR starts at 1; every inner (refined) step reads data[indxR] and   *)
(*   then advances by `stride` bath steps, saturating at cutoff_indx.      *)
(* The state time at inner step k is k*stride bath steps.                  *)
(***************************************************************************)
EXTENDS Integers, Sequences, TLC, TDIndexOps

CONSTANTS MaxNtProp, MaxNref, MaxStride, MaxNtBath

VARIABLES ntprop, nref, stride, cut, ntens,   \* configuration
          k,          \* inner steps done
          indxR,      \* index that the NEXT read will use
          lastRead    \* index used by the last read (-1: none)

vars == <<ntprop, nref, stride, cut, ntens, k, indxR, lastRead>>

\* the propagation axis lies inside the bath axis
Fits(np, nr, st, nb) == FitsIn(np, nr, st, nb)

Init ==
  /\ ntprop \in 2 .. MaxNtProp /\ nref \in 1 .. MaxNref
  /\ stride \in 1 .. MaxStride /\ ntens \in 2 .. MaxNtBath
  /\ cut = ntens                       \* no cut-off: cutoff_indx = bath length
  /\ Fits(ntprop, nref, stride, ntens)
  /\ k = 0 /\ indxR = 1 /\ lastRead = -1

Total == TotalSteps(ntprop, nref)

Read ==
  /\ k < Total
  /\ lastRead' = indxR
  /\ indxR' = NextIndex(indxR, stride, cut)
  /\ k' = k + 1
  /\ UNCHANGED <<ntprop, nref, stride, cut, ntens>>

Next == Read
Spec == Init /\ [][Next]_vars

\* every read uses an existing slice of the tensor
ReadInRange == lastRead = -1 \/ (0 <= lastRead /\ lastRead < ntens)

\* the slice used for the step that starts at state time (k-1)*stride is at
\* most one bath step ahead of it and never behind
SampleNearStateTime ==
  lastRead = -1 \/
    LET tstate == (k - 1) * stride IN
    (lastRead >= tstate /\ lastRead <= tstate + 1) \/ lastRead = cut
=============================================================================
