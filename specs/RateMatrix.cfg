CONSTANTS
  Dim = 3
  Values = {0, 1, 2}
  MaxOps = 4
SPECIFICATION Spec
CONSTRAINT Bounded
INVARIANT ColumnSumsZero
INVARIANT AssignedKept
INVARIANT DiagonalIsDepopulation
PROPERTY RefusalChangesNothing
CHECK_DEADLOCK FALSE
