----------------------------- MODULE SliceAlias -----------------------------
(***************************************************************************)
(* Objects handed out by at(t) of evolutions                                *)
(* (qm/propagators/dmevolution.py: DensityMatrixEvolution.at,              *)
(* ReducedDensityMatrixEvolution.at; qm/liouvillespace/                    *)
(* evolutionsuperoperator.py: EvolutionSuperOperator.at) under the basis   *)
(* management of core/managers.py.                                         *)
(*                                                                         *)
(* BasisManager.tla gives every managed object its own representation.     *)
(* Here an object is a pair (tag, storage): the manager transforms         *)
(* OBJECTS (every object registered with a context is transformed back     *)
(* once when the context is left), but what is transformed is the STORAGE. *)
(* at(t) first brings the evolution into the current basis and then builds *)
(* a new managed object from the slice; AtCopies = TRUE: the new object    *)
(* owns a copy of the slice (the code after the repair cc02fb9);           *)
(* AtCopies = FALSE: it is a view of the evolution's storage (negative     *)
(* control: the code before the repair) - two registered objects then      *)
(* share one storage, which is transformed back twice.                     *)
(***************************************************************************)
EXTENDS Integers, Sequences, FiniteSets, TLC

CONSTANTS MaxDepth, MaxObjs, MaxSteps, AtCopies

VARIABLES depth,    \* number of open contexts
          trans,    \* tokens of the basis transformations, one per context
          reg,      \* reg[k]: objects registered with context k
          nobj,     \* objects 1..nobj exist; object 1 is the evolution
          store,    \* object -> storage id
          srep,     \* storage id -> representation path (sequence of tokens)
          tag,      \* object -> basis id its data are believed to be in
          ntok, steps

vars == <<depth, trans, reg, nobj, store, srep, tag, ntok, steps>>

Front(s) == SubSeq(s, 1, Len(s) - 1)
Path(k) == SubSeq(trans, 1, k)
Objs == 1 .. nobj

Init == /\ depth = 0 /\ trans = << >> /\ reg = << >> /\ nobj = 1
        /\ store = [o \in {1} |-> 1] /\ srep = [s \in {1} |-> << >>]
        /\ tag = [o \in {1} |-> 0] /\ ntok = 0 /\ steps = 0

Tick == steps' = steps + 1

\* Manager.transform_to_current_basis(o): values after the call
TouchedRep(o) == IF tag[o] = depth THEN srep[store[o]]
                 ELSE srep[store[o]] \o SubSeq(trans, tag[o] + 1, depth)
TouchedReg(o) == IF tag[o] = depth \/ depth = 0 THEN reg
                 ELSE [reg EXCEPT ![depth] = @ \cup {o}]

Enter == /\ depth < MaxDepth
         /\ ntok' = ntok + 1 /\ trans' = Append(trans, ntok + 1)
         /\ depth' = depth + 1 /\ reg' = Append(reg, {})
         /\ UNCHANGED <<nobj, store, srep, tag>> /\ Tick

\* reading `data` of an existing object
Touch(o) == /\ o \in Objs /\ tag[o] <= depth
            /\ srep' = [srep EXCEPT ![store[o]] = TouchedRep(o)]
            /\ tag' = [tag EXCEPT ![o] = depth]
            /\ reg' = TouchedReg(o)
            /\ UNCHANGED <<depth, trans, nobj, store, ntok>> /\ Tick

\* x = evolution.at(t): self.data[ti] (a Touch of the evolution), then a new
\* managed object built from the slice in the current basis
At == /\ nobj < MaxObjs /\ tag[1] <= depth
      /\ LET n == nobj + 1
             srep1 == [srep EXCEPT ![store[1]] = TouchedRep(1)]
             reg1 == TouchedReg(1)
         IN  /\ nobj' = n
             /\ tag' = [o \in 1 .. n |-> IF o = n \/ o = 1 THEN depth
                                          ELSE tag[o]]
             /\ store' = [o \in 1 .. n |->
                            IF o = n THEN (IF AtCopies THEN n ELSE store[1])
                            ELSE store[o]]
             /\ srep' = IF AtCopies
                          THEN [s \in DOMAIN srep1 \cup {n} |->
                                  IF s = n THEN srep1[store[1]] ELSE srep1[s]]
                          ELSE srep1
             /\ reg' = IF depth = 0 THEN reg1
                       ELSE [reg1 EXCEPT ![depth] = @ \cup {n}]
      /\ UNCHANGED <<depth, trans, ntok>> /\ Tick

\* one back-transformation of a storage (a token that is not the last one
\* stays visible as a corrupted path)
Strip(p, t) == IF p # << >> /\ p[Len(p)] = t THEN Front(p)
               ELSE Append(p, 0 - t)
RECURSIVE StripK(_, _, _)
StripK(p, t, k) == IF k = 0 THEN p ELSE StripK(Strip(p, t), t, k - 1)

\* eigenbasis_of.__exit__: every registered OBJECT is transformed back once
Exit == /\ depth > 0
        /\ LET t == trans[depth]
               R == reg[depth]
               nb == depth - 1
               Users(s) == Cardinality({o \in R : store[o] = s})
           IN  /\ srep' = [s \in DOMAIN srep |-> StripK(srep[s], t, Users(s))]
               /\ tag' = [o \in Objs |-> IF o \in R THEN nb ELSE tag[o]]
               /\ reg' = IF nb = 0 THEN << >>
                         ELSE [Front(reg) EXCEPT ![nb] = @ \cup R]
               /\ depth' = nb /\ trans' = Front(trans)
        /\ UNCHANGED <<nobj, store, ntok>> /\ Tick

Next == Enter \/ Exit \/ At \/ \E o \in 1 .. MaxObjs : Touch(o)
Spec == Init /\ [][Next]_vars
Bounded == steps < MaxSteps

\* every object's data are in the basis its tag names
RepMatchesTag == \A o \in Objs : tag[o] <= depth =>
                     srep[store[o]] = Path(tag[o])
\* outside all contexts everything is in its original representation
Restored == depth = 0 => \A o \in Objs : srep[store[o]] = << >> /\ tag[o] = 0
=============================================================================
