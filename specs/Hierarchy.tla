------------------------------ MODULE Hierarchy ------------------------------
(***************************************************************************)
(* Index set and neighbour links of the Kubo-Tanimura hierarchy            *)
(* (quantarhei/qm/liouvillespace/heom.py: KTHierarchy.generate_indices,    *)
(* _convert_2_matrix, _make_nmp1, _make_Gamma and the index tests of       *)
(* KTHierarchyPropagator._ado_cros_rhs).                                   *)
(*                                                                         *)
(* generate_indices is transcribed as a machine, one action per iteration  *)
(* of its innermost loop; the numpy tables built from its result are       *)
(* operators evaluated in the final state.                                 *)
(***************************************************************************)
EXTENDS Integers, Sequences, FiniteSets, TLC, Json, IOUtils

CONSTANTS NBaths,     \* set of numbers of baths explored
          Depths      \* set of depths explored

VARIABLES N, D,          \* chosen instance
          kk,            \* level being generated (loop `for kk in range(level)`)
          levelPrev,     \* level_prev
          newLevel,      \* new_level_prev
          io, nn,        \* positions of the two inner loops (1-based)
          lret,          \* list of levels generated so far
          pc

vars == <<N, D, kk, levelPrev, newLevel, io, nn, lret, pc>>

Rng(s) == {s[i] : i \in DOMAIN s}
ZeroIdx(n) == [i \in 1 .. n |-> 0]

Init ==
  /\ N \in NBaths /\ D \in Depths
  /\ kk = 0
  /\ levelPrev = << ZeroIdx(N) >>
  /\ newLevel = << >>
  /\ io = 1 /\ nn = 1
  /\ lret = << << ZeroIdx(N) >> >>
  /\ pc = "gen"

\* one iteration of `for nn in range(N)` inside `for old_level in level_prev`
GenStep ==
  /\ pc = "gen" /\ kk < D /\ io <= Len(levelPrev)
  /\ LET nlist == [levelPrev[io] EXCEPT ![nn] = @ + 1]
     IN  newLevel' = IF nlist \in Rng(newLevel) THEN newLevel
                     ELSE Append(newLevel, nlist)
  /\ IF nn = N THEN nn' = 1 /\ io' = io + 1
               ELSE nn' = nn + 1 /\ io' = io
  /\ UNCHANGED <<N, D, kk, levelPrev, lret, pc>>

\* end of `for old_level in level_prev`: the new level becomes the previous
LevelDone ==
  /\ pc = "gen" /\ kk < D /\ io > Len(levelPrev)
  /\ levelPrev' = newLevel
  /\ lret' = Append(lret, newLevel)
  /\ newLevel' = << >>
  /\ kk' = kk + 1 /\ io' = 1 /\ nn' = 1
  /\ UNCHANGED <<N, D, pc>>

Finish ==
  /\ pc = "gen" /\ kk = D
  /\ pc' = "done"
  /\ UNCHANGED <<N, D, kk, levelPrev, newLevel, io, nn, lret>>

Next == GenStep \/ LevelDone \/ Finish

Spec == Init /\ [][Next]_vars /\ WF_vars(Next)

(* ------------------- tables built from the result (0-based) ------------- *)
RECURSIVE Flatten(_)
Flatten(ss) == IF ss = << >> THEN << >> ELSE Head(ss) \o Flatten(Tail(ss))

Hinds == Flatten(lret)                 \* _convert_2_matrix: rows in level order
HSize == Len(Hinds)
RECURSIVE SumSeq(_)
SumSeq(s) == IF s = << >> THEN 0 ELSE Head(s) + SumSeq(Tail(s))
Order(n) == SumSeq(n)

LevLengths == [k \in 1 .. Len(lret) |-> Len(lret[k])]
RECURSIVE StartOf(_)
StartOf(k) == IF k = 1 THEN 0 ELSE StartOf(k - 1) + Len(lret[k - 1])
LevelStarts == [k \in 1 .. Len(lret) |-> StartOf(k)]

\* _make_nmp1: last match in range(nn) for n-1, last match in range(hsize)
\* for n+1; -1 if none.  Rows are numbered from 0 as in the code.
LastMatch(target, upto) ==
  LET M == {ll \in 1 .. upto : Hinds[ll] = target}
  IN  IF M = {} THEN -1 ELSE (CHOOSE m \in M : \A x \in M : x <= m) - 1

Nm1(row, k) == LastMatch([Hinds[row] EXCEPT ![k] = @ - 1], row - 1)
Np1(row, k) == LastMatch([Hinds[row] EXCEPT ![k] = @ + 1], HSize)

(* -------------------------------- properties --------------------------- *)
AllIndices == {n \in [1 .. N -> 0 .. D] : Order(n) <= D}

Binom(n, k) == LET F[i \in 0 .. k] == IF i = 0 THEN 1 ELSE (F[i - 1] * (n - i + 1)) \div i
               IN F[k]

Done == pc = "done"

CompleteOnce ==
  Done => /\ Rng(Hinds) = AllIndices
          /\ HSize = Cardinality(AllIndices)          \* no duplicates

LevelByLevel ==
  Done => /\ Len(lret) = D + 1
          /\ \A k \in 1 .. Len(lret) :
               /\ \A n \in Rng(lret[k]) : Order(n) = k - 1
               /\ Len(lret[k]) = Binom(k - 1 + N - 1, N - 1)

LinksInverse ==
  Done => \A row \in 1 .. HSize, k \in 1 .. N :
            /\ (Nm1(row, k) = -1) <=> (Hinds[row][k] = 0)
            /\ (Np1(row, k) = -1) <=> (Order(Hinds[row]) = D)
            /\ Nm1(row, k) # -1 => Np1(Nm1(row, k) + 1, k) = row - 1
            /\ Np1(row, k) # -1 => Nm1(Np1(row, k) + 1, k) = row - 1

\* the index tests of _ado_cros_rhs select exactly the existing neighbours:
\*   `if nk*jj >= 0` (jj = nm1) lets the missing neighbour (-1, i.e. the LAST
\*    ADO in numpy indexing) through only multiplied by nk = 0;
\*   `if jj > 0` (jj = np1) is equivalent to jj # -1 because row 0 is never
\*    an n+1 neighbour.
NeighbourTests ==
  Done => \A row \in 1 .. HSize, k \in 1 .. N :
            LET nk == Hinds[row][k]  jm == Nm1(row, k)  jp == Np1(row, k)
            IN  /\ (nk * jm >= 0) => (jm >= 0 \/ nk = 0)
                /\ (nk > 0) => (nk * jm >= 0 /\ jm >= 0)
                /\ (jp > 0) <=> (jp # -1)

Terminates == <>Done

(* ----------------------------- table export ---------------------------- *)
TableDir == IF "TABLE_DIR" \in DOMAIN IOEnv THEN IOEnv.TABLE_DIR ELSE ""

TableRow ==
  [ nbath |-> N, depth |-> D, hsize |-> HSize,
    hinds |-> Hinds,
    levels |-> LevelStarts, levlengths |-> LevLengths,
    nm1 |-> [row \in 1 .. HSize |-> [k \in 1 .. N |-> Nm1(row, k)]],
    np1 |-> [row \in 1 .. HSize |-> [k \in 1 .. N |-> Np1(row, k)]] ]

ExportTable ==
  (Done /\ TableDir # "") =>
     JsonSerialize(TableDir \o "/h_" \o ToString(N) \o "_" \o ToString(D)
                   \o ".json", TableRow)
=============================================================================
