CONSTANTS
  MaxCalls = 5
  HeomResets = FALSE
  FreeModeLocal = TRUE
  RestoreOnError = TRUE
  SplitCopies = TRUE
  NefRecomputes = TRUE
  NrefPersists = FALSE
SPECIFICATION Spec
CONSTRAINT Bounded
INVARIANT Determinacy
INVARIANT HamiltonianHandedBack
CHECK_DEADLOCK FALSE
