------------------------------- MODULE SaveDir -------------------------------
(***************************************************************************)
(* Saveable.savedir / loaddir (core/saveable.py): objects are written into *)
(* one directory; a dictionary tag -> file name is kept in insertion       *)
(* order; an object saved without a tag gets an automatic integer tag.     *)
(*                                                                         *)
(* Property: what loaddir returns is exactly what was saved -- an object   *)
(* can only be replaced by a later save that names ITS tag explicitly; an  *)
(* automatically tagged save never replaces anything.                      *)
(***************************************************************************)
EXTENDS Integers, Sequences, FiniteSets, TLC

CONSTANTS Tags,        \* explicit integer tags a user may give, e.g. 1..3
          Names,       \* explicit tags that are NOT integers (strings such as
                       \*   "first"), coded as numbers >= NameBase; they take no
                       \*   part in the choice of automatic tags
          NameBase,
          MaxSaves,
          AutoRule     \* "max+1": one more than the largest integer tag in
                       \*   the directory (the code after the repair);
                       \* "last+1": one more than the tag inserted last (the
                       \*   code before the repair; negative control);
                       \* "len+1": number of entries + 1 (negative control)

VARIABLES entries,     \* sequence of <<tag, obj>>: the dictionary in insertion
                       \* order (assigning to an existing key keeps its place)
          nobj,        \* objects saved so far (object ids 1..nobj)
          expected,    \* ghost: tag -> object the user is entitled to find
          lost         \* ghost: an automatically tagged save replaced an entry

vars == <<entries, nobj, expected, lost>>

Init == entries = << >> /\ nobj = 0 /\ expected = [t \in {} |-> 0]
        /\ lost = FALSE

Keys == {entries[i][1] : i \in DOMAIN entries}
MaxOf(S) == CHOOSE x \in S : \A y \in S : y <= x

IntKeys == {k \in Keys : k < NameBase}

AutoTag ==
  CASE AutoRule = "max+1"  -> IF IntKeys = {} THEN 1 ELSE MaxOf(IntKeys) + 1
    [] AutoRule = "last+1" -> IF entries = << >> THEN 1
                              ELSE entries[Len(entries)][1] + 1
    [] AutoRule = "len+1"  -> Len(entries) + 1

Assign(t, o) ==
  IF t \in Keys
    THEN [i \in DOMAIN entries |->
            IF entries[i][1] = t THEN <<t, o>> ELSE entries[i]]
    ELSE Append(entries, <<t, o>>)

\* obj.savedir(dir, tag=t)        (t = 0: no tag given)
Save(t) ==
  /\ nobj < MaxSaves
  /\ LET o == nobj + 1
         tag == IF t = 0 THEN AutoTag ELSE t
     IN  /\ entries' = Assign(tag, o)
         /\ nobj' = o
         \* an explicit tag replaces what is stored under it (the user
         \* names it); an automatic tag must be a NEW name
         /\ lost' = (lost \/ (t = 0 /\ tag \in Keys))
         /\ expected' = [x \in DOMAIN expected \cup {tag} |->
                           IF x = tag THEN o ELSE expected[x]]

Next == \E t \in Tags \cup Names \cup {0} : Save(t)
Spec == Init /\ [][Next]_vars

\* loaddir: tag -> object
Loaded == [t \in Keys |-> (CHOOSE i \in DOMAIN entries : entries[i][1] = t)]
ObjAt(t) == entries[Loaded[t]][2]
LoadedObjs == {entries[i][2] : i \in DOMAIN entries}

\* no automatically tagged save has replaced anything, and loaddir returns
\* under every tag the object saved under it last
NothingLost ==
  /\ ~lost
  /\ Keys = DOMAIN expected
  /\ \A t \in Keys : ObjAt(t) = expected[t]
=============================================================================
