--------------------------- MODULE ParallelRegions ---------------------------
(***************************************************************************)
(* Nesting of parallel regions and distributed loops                       *)
(* (core/parallel.py: DistributedConfiguration.start_parallel_region /     *)
(* finish_parallel_region keep parallel_level; block_distributed_range     *)
(* shares the indices among the processes only at parallel_level 1 and     *)
(* gives every process the whole range otherwise; reduce / allreduce sum   *)
(* over the processes only at parallel_level 1).                           *)
(*                                                                         *)
(* All processes run the same program of region starts / ends and loop     *)
(* begins / ends.  A loop is correct when the decision taken at its        *)
(* beginning (indices shared or not) and the decision taken at its end     *)
(* (partial results summed or not) agree: then the result on the root is   *)
(* the serial one.  Library routines called from a loop body open and      *)
(* close their own regions, so regions nest inside open loops.             *)
(***************************************************************************)
EXTENDS Integers, Sequences, TLC

CONSTANTS MaxDepth, MaxOps,
          FinishDecrements   \* "always": the code; "outermost-only":
                             \* negative control (the level is lowered only
                             \* when the outermost region is closed)

VARIABLES level,     \* parallel_level (more than one process)
          stack,     \* open constructs: <<"R", FALSE>> or <<"L", shared>>
          ok,        \* ghost: every closed loop was consistent
          nops
vars == <<level, stack, ok, nops>>

Init == level = 0 /\ stack = << >> /\ ok = TRUE /\ nops = 0
Top == stack[Len(stack)]
Pop == SubSeq(stack, 1, Len(stack) - 1)
Tick == nops' = nops + 1

StartRegion ==
  /\ Len(stack) < MaxDepth
  /\ level' = level + 1
  /\ stack' = Append(stack, <<"R", FALSE>>)
  /\ UNCHANGED ok /\ Tick

FinishRegion ==
  /\ stack # << >> /\ Top[1] = "R"
  /\ level' = IF FinishDecrements = "always" \/ level = 1
                THEN level - 1 ELSE level
  /\ stack' = Pop
  /\ UNCHANGED ok /\ Tick

\* for k in block_distributed_range(...):   (needs a declared region)
BeginLoop ==
  /\ Len(stack) < MaxDepth /\ level >= 1
  /\ stack' = Append(stack, <<"L", level = 1>>)
  /\ UNCHANGED <<level, ok>> /\ Tick

\* ... allreduce(partial result)
EndLoop ==
  /\ stack # << >> /\ Top[1] = "L"
  /\ ok' = (ok /\ (Top[2] = (level = 1)))
  /\ stack' = Pop
  /\ UNCHANGED level /\ Tick

Next == StartRegion \/ FinishRegion \/ BeginLoop \/ EndLoop
Spec == Init /\ [][Next]_vars
Bounded == nops < MaxOps

RECURSIVE CountR(_)
CountR(s) == IF s = << >> THEN 0
             ELSE (IF s[Len(s)][1] = "R" THEN 1 ELSE 0)
                  + CountR(SubSeq(s, 1, Len(s) - 1))

LevelIsDepth == level = CountR(stack)
LoopsConsistent == ok
=============================================================================
