CONSTANTS
  MaxNE = 3
  TransferModes = {"identity", "population"}
SPECIFICATION Spec
INVARIANT Complete
INVARIANT Sound
INVARIANT ExactExceptR2g
INVARIANT Signs
INVARIANT Disjoint
INVARIANT Counts
CHECK_DEADLOCK FALSE
