------------------------------ MODULE BasisTrace ------------------------------
(* Validates traces of the basis management recorded from the real library  *)
(* (harness/tracer.py BasisTracer) against BasisManager.  Events are the    *)
(* primitive transitions with the projected manager state after them;       *)
(* objects are numbered in order of appearance and are "born" into the      *)
(* model the first time they are seen (with the tag they carried then).     *)
EXTENDS BasisManager, Json, IOUtils

Traces == JsonDeserialize(IOEnv.TRACE_FILE).traces
TraceObjs == {"o" \o ToString(i) : i \in 0 .. 59}

VARIABLES tid, l, libDepth,    \* libDepth: stack of context depths at lib_begin
          libProt              \* stack of protection flags at lib_begin
tvars == <<vars, tid, l, libDepth, libProt>>
Ev == Traces[tid][l]

TraceInit == /\ tid \in 1 .. Len(Traces) /\ l = 1 /\ Init /\ libDepth = << >>
             /\ libProt = << >>

\* an object seen for the first time enters the model with the tag it had
Born(o, t) ==
  IF exists[o] THEN [ex |-> exists, tg |-> tag, rp |-> rep]
  ELSE [ex |-> [exists EXCEPT ![o] = TRUE], tg |-> [tag EXCEPT ![o] = t],
        rp |-> [rep EXCEPT ![o] = Path(t)]]

Logged == /\ depth' = Ev.depth /\ Len(trans') = Ev.ntrans /\ flag' = Ev.flag

\* the model with object o born: apply action A on the patched state
TEnter ==
  /\ Ev.ev = "enter"
  /\ LET o == Ev.obj
         b == Born(o, Ev.oldtag)
         pr == [prot EXCEPT ![o] = Ev.prot]
         acc == ~Ev.prot /\ b.tg[o] # depth
         rep1 == IF acc THEN [b.rp EXCEPT ![o] = @ \o SubSeq(trans, b.tg[o] + 1, depth)]
                 ELSE b.rp
         tag1 == IF acc THEN [b.tg EXCEPT ![o] = depth] ELSE b.tg
         reg1 == IF acc /\ depth > 0 THEN [registered EXCEPT ![depth] = @ \cup {o}]
                 ELSE registered
     IN /\ (Ev.prot \/ b.tg[o] <= depth)
        /\ exists' = b.ex /\ prot' = pr
        /\ rep' = rep1 /\ tag' = tag1
        /\ tag1[o] = Ev.tag
        /\ ntok' = ntok + 1 /\ trans' = Append(trans, ntok + 1)
        /\ depth' = depth + 1 /\ registered' = Append(reg1, {})
        /\ flag' = TRUE
  /\ UNCHANGED <<frozenAt, consistent, exc, steps, libDepth, libProt>>
  /\ Logged

TExit ==
  /\ Ev.ev = "exit" /\ depth > 0
  \* objects the tracer saw in the registry of the level that is left
  /\ {Ev.moved[i] : i \in DOMAIN Ev.moved} = registered[depth]
  /\ Exit
  /\ UNCHANGED <<libDepth, libProt>>
  /\ Logged

TAccess ==
  /\ Ev.ev = "access"
  /\ LET o == Ev.obj  b == Born(o, Ev.oldtag) IN
     /\ ~prot[o] /\ b.tg[o] = Ev.oldtag /\ Ev.oldtag < depth /\ Ev.tag = depth
     /\ exists' = b.ex
     /\ rep' = [b.rp EXCEPT ![o] = @ \o SubSeq(trans, b.tg[o] + 1, depth)]
     /\ tag' = [b.tg EXCEPT ![o] = depth]
     /\ registered' = [registered EXCEPT ![depth] = @ \cup {o}]
  /\ UNCHANGED <<depth, trans, flag, prot, frozenAt, consistent, ntok, exc,
                 steps, libDepth, libProt>>
  /\ Logged

TCreate ==
  /\ Ev.ev = "create"
  /\ LET o == Ev.obj IN
     /\ ~exists[o] /\ Ev.tag = depth /\ depth > 0
     /\ exists' = [exists EXCEPT ![o] = TRUE]
     /\ tag' = [tag EXCEPT ![o] = depth]
     /\ rep' = [rep EXCEPT ![o] = Path(depth)]
     /\ registered' = [registered EXCEPT ![depth] = @ \cup {o}]
  /\ UNCHANGED <<depth, trans, flag, prot, frozenAt, consistent, ntok, exc,
                 steps, libDepth, libProt>>
  /\ Logged

TProtect ==
  /\ Ev.ev \in {"protect", "unprotect"}
  /\ LET o == Ev.obj  b == Born(o, Ev.oldtag) IN
     /\ exists' = b.ex /\ tag' = b.tg /\ rep' = b.rp
     /\ prot' = [prot EXCEPT ![o] = (Ev.ev = "protect")]
     /\ frozenAt' = IF Ev.ev = "protect" THEN [frozenAt EXCEPT ![o] = b.rp[o]]
                    ELSE frozenAt
  /\ UNCHANGED <<depth, trans, registered, flag, consistent, ntok, exc, steps,
                 libDepth, libProt>>
  /\ Logged

TLibBegin == /\ Ev.ev = "lib_begin"
             /\ libDepth' = Append(libDepth, depth)
             /\ libProt' = Append(libProt, prot)
             /\ UNCHANGED vars
TLibEnd == /\ Ev.ev = "lib_end" /\ libDepth # << >>
           /\ libDepth' = SubSeq(libDepth, 1, Len(libDepth) - 1)
           /\ libProt' = SubSeq(libProt, 1, Len(libProt) - 1)
           /\ UNCHANGED vars

TraceNext ==
  /\ l <= Len(Traces[tid]) /\ l' = l + 1 /\ UNCHANGED tid
  /\ (TEnter \/ TExit \/ TAccess \/ TCreate \/ TProtect \/ TLibBegin \/ TLibEnd)

TraceSpec == TraceInit /\ [][TraceNext]_tvars
Accepting == l <= Len(Traces[tid]) => ENABLED TraceNext

\* a library call hands the basis bookkeeping back as it found it
LibraryCallsRestoreBookkeeping ==
  [][(l <= Len(Traces[tid]) /\ Traces[tid][l].ev = "lib_end" /\ libDepth # << >>)
       => depth = libDepth[Len(libDepth)]]_tvars

\* ... and leaves no object protected that was not protected before
LibraryCallsRestoreProtection ==
  [][(l <= Len(Traces[tid]) /\ Traces[tid][l].ev = "lib_end"
      /\ ~Traces[tid][l].exc /\ libProt # << >>)
       => prot = libProt[Len(libProt)]]_tvars
=============================================================================
