CONSTANTS
  M4Diag = 3
SPECIFICATION Spec
INVARIANT PrefactorIsExactAverage
CHECK_DEADLOCK FALSE
