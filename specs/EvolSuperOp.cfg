CONSTANTS
  Nt = 4
  MaxDense = 2
  MaxSteps = 6
SPECIFICATION Spec
CONSTRAINT Bounded
INVARIANT IdentityAtZero
INVARIANT StepByStepIsPower
INVARIANT Semigroup
PROPERTY RefusalChangesNothing
CHECK_DEADLOCK FALSE
