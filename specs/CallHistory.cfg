CONSTANTS
  MaxCalls = 5
  HeomResets = TRUE
  FreeModeLocal = TRUE
  RestoreOnError = TRUE
  SplitCopies = TRUE
  NefRecomputes = TRUE
  NrefPersists = FALSE
SPECIFICATION Spec
CONSTRAINT Bounded
INVARIANT Determinacy
INVARIANT HamiltonianHandedBack
CHECK_DEADLOCK FALSE
