----------------------------- MODULE FourierAxes -----------------------------
(***************************************************************************)
(* Index bookkeeping of the discrete Fourier transforms of DFunction       *)
(* (quantarhei/core/dfunction.py: get_Fourier_transform,                   *)
(* get_inverse_Fourier_transform) and of the conjugate axes                *)
(* (core/time.py get_FrequencyAxis, core/frequency.py get_TimeAxis).       *)
(*                                                                         *)
(* All maps are linear, so they are decided on delta inputs.  A sample     *)
(* value is a bag of roots of unity  w^e, w = exp(2 pi i / Q) (Q = 4M, so  *)
(* that the imaginary unit and conjugation are representable); the empty   *)
(* bag is zero.  numpy's fftshift / ifftshift / fft / ifft are transcribed *)
(* as index maps, the pipelines of the code are compositions of them, and  *)
(* the property is  Pipeline = DefiningSum  for every delta position, every*)
(* length (even and odd) and both axis types.                              *)
(***************************************************************************)
EXTENDS Integers, Sequences, FiniteSets, TLC, Json, IOUtils

CONSTANTS MaxN,          \* lengths 1..MaxN of the stored axis
          InputShift     \* "ifftshift": the code as it is;
                         \* "fftshift" : the variant repaired in /repo
                         \*              (negative control)

(* ------------------------------ root-of-unity bags --------------------- *)
Zero(Q) == [e \in 0 .. Q - 1 |-> 0]
One(Q, e0) == [e \in 0 .. Q - 1 |-> IF e = e0 % Q THEN 1 ELSE 0]
Mul(Q, b, k) == [e \in 0 .. Q - 1 |-> b[(e - k) % Q]]      \* b * w^k
Conj(Q, b) == [e \in 0 .. Q - 1 |-> b[(0 - e) % Q]]
Add(Q, a, b) == [e \in 0 .. Q - 1 |-> a[e] + b[e]]

(* --------------------------- numpy index maps -------------------------- *)
\* vectors are functions on 0..M-1
FftShift(M, x)  == [j \in 0 .. M - 1 |-> x[(j - (M \div 2)) % M]]
IfftShift(M, x) == [j \in 0 .. M - 1 |-> x[(j + (M \div 2)) % M]]

RECURSIVE SumTerms(_, _, _, _, _, _)
\* sum_{m < upto} x[m] * w_M^(sign*m*k)   with w_M = w^(Q/M)
SumTerms(Q, M, x, k, sign, upto) ==
  IF upto = 0 THEN Zero(Q)
  ELSE Add(Q, SumTerms(Q, M, x, k, sign, upto - 1),
              Mul(Q, x[upto - 1], (sign * (upto - 1) * k * (Q \div M)) % Q))

\* numpy.fft.ifft * M  (the code always multiplies by the length) and fft
IFFTxM(Q, M, x) == [k \in 0 .. M - 1 |-> SumTerms(Q, M, x, k, 1, M)]
FFT(Q, M, x)    == [k \in 0 .. M - 1 |-> SumTerms(Q, M, x, k, -1, M)]

InShift(M, x) == IF InputShift = "ifftshift" THEN IfftShift(M, x)
                 ELSE FftShift(M, x)

Delta(Q, M, n0, c) == [n \in 0 .. M - 1 |-> IF n = n0 THEN One(Q, c) ELSE Zero(Q)]

(* ---------------------- complete axes (centred at zero) ---------------- *)
\* sample n sits at (n - N div 2) steps, on both axes
Pos(N, n) == n - (N \div 2)

\* get_Fourier_transform, TimeAxis complete (same index pipeline for a
\* FrequencyAxis complete):  N * fftshift(ifft(shift(y)))
FwdComplete(Q, N, y) == FftShift(N, IFFTxM(Q, N, InShift(N, y)))
\* get_inverse_Fourier_transform:  fftshift(fft(shift(y)))
InvComplete(Q, N, y) == FftShift(N, FFT(Q, N, InShift(N, y)))

\* defining sums  sum_n f_n exp(+/- i w_k t_n)  on the conjugate grid
DefSum(Q, N, y, sign) ==
  [k \in 0 .. N - 1 |->
     LET T[n \in 0 .. N] ==
           IF n = 0 THEN Zero(Q)
           ELSE Add(Q, T[n - 1],
                    Mul(Q, y[n - 1],
                        (sign * Pos(N, n - 1) * Pos(N, k) * (Q \div N)) % Q))
     IN T[N]]

CompleteOK(N) ==
  LET Q == 4 * N IN
  \A n0 \in 0 .. N - 1 : \A c \in {0, N} :          \* values 1 and i
     /\ FwdComplete(Q, N, Delta(Q, N, n0, c)) = DefSum(Q, N, Delta(Q, N, n0, c), 1)
     /\ InvComplete(Q, N, Delta(Q, N, n0, c)) = DefSum(Q, N, Delta(Q, N, n0, c), -1)

(* ------------------------------ upper-half axes ------------------------ *)
\* time samples n = 0..Nt-1 at n steps; returned axis has M = 2 Nt points,
\* point k at (k - Nt) frequency steps; Hermitian extension f(-t) = conj f(t)
Extend(Q, Nt, y) ==
  LET M == 2 * Nt IN
  [m \in 0 .. M - 1 |->
     IF m < Nt THEN y[m]
     ELSE IF m = Nt THEN Zero(Q)
     ELSE Conj(Q, y[M - m])]                \* yy[M-k-1] = conj(y[k+1])

FwdUpper(Q, Nt, y) == FftShift(2 * Nt, IFFTxM(Q, 2 * Nt, Extend(Q, Nt, y)))

DefSumUpper(Q, Nt, y) ==
  LET M == 2 * Nt IN
  [k \in 0 .. M - 1 |->
     LET T[n \in 0 .. Nt] ==           \* n = 0 once, n >= 1 with its mirror
           IF n = 0 THEN Zero(Q)
           ELSE LET j == n - 1
                    ph == (j * (k - Nt) * (Q \div M)) % Q
                IN  Add(Q, T[n - 1],
                        IF j = 0 THEN Mul(Q, y[0], 0)
                        ELSE Add(Q, Mul(Q, y[j], ph),
                                    Mul(Q, Conj(Q, y[j]), (0 - ph) % Q)))
     IN T[Nt]]

UpperOK(Nt) ==
  LET Q == 8 * Nt IN
  \A n0 \in 0 .. Nt - 1 : \A c \in {0, 2 * Nt} :     \* values 1 and i
     FwdUpper(Q, Nt, Delta(Q, Nt, n0, c)) = DefSumUpper(Q, Nt, Delta(Q, Nt, n0, c))

\* inverse on an upper-half FrequencyAxis (M = 2 Nt points): the code applies
\* the complete pipeline and returns samples Nt..2Nt-1, i.e. times 0..Nt-1
InvUpperOK(Nt) ==
  LET M == 2 * Nt  Q == 4 * M IN
  \A k0 \in 0 .. M - 1 :
     LET Y == InvComplete(Q, M, Delta(Q, M, k0, 0))
         D == DefSum(Q, M, Delta(Q, M, k0, 0), -1)
     IN \A n \in 0 .. Nt - 1 : Y[Nt + n] = D[Nt + n]

(* ------------------------------ conjugate axes ------------------------- *)
\* axes in integer units of their step: [start, n]; tstart/fstart are the
\* remembered origins of the conjugate axis
FreqOfComplete(s, N) == [kstart |-> 0 - (N \div 2), n |-> N, tstart |-> s + (N \div 2)]
TimeOfComplete(F)    == [s |-> F.tstart - (F.n \div 2), n |-> F.n]
FreqOfUpper(s, Nt)   == [kstart |-> 0 - Nt, n |-> 2 * Nt, tstart |-> s]
TimeOfUpper(F)       == [s |-> F.tstart + 0, n |-> F.n \div 2]   \* times[n/2] = 0

AxesOK(N) ==
  \A s \in (0 - 4) .. 4 :
     /\ TimeOfComplete(FreqOfComplete(s, N)) = [s |-> s, n |-> N]
     /\ TimeOfUpper(FreqOfUpper(s, N)) = [s |-> s, n |-> N]

(* --------------------------------- machine ----------------------------- *)
\* one state per length, so that the 16 workers share the evaluation
VARIABLE len
Init == len \in 1 .. MaxN
Next == UNCHANGED len
Spec == Init /\ [][Next]_len

ForwardAndInverseAreDefiningSums == CompleteOK(len)
UpperHalfIsDefiningSum == UpperOK(len) /\ InvUpperOK(len)
AxesRoundTrip == AxesOK(len)

(* -------------------------- table for the harness ---------------------- *)
\* where a unit sample at position n0 lands: exponent of the root of unity
\* (in units of 2 pi / (4N)) at every returned index
TableDir == IF "TABLE_DIR" \in DOMAIN IOEnv THEN IOEnv.TABLE_DIR ELSE ""
ExpOf(Q, b) == CHOOSE e \in 0 .. Q - 1 : b[e] = 1
Row(N) ==
  [n |-> N, q |-> 4 * N,
   fwd |-> [n0 \in 1 .. N |->
              [k \in 1 .. N |->
                 ExpOf(4 * N, FwdComplete(4 * N, N, Delta(4 * N, N, n0 - 1, 0))[k - 1])]],
   inv |-> [n0 \in 1 .. N |->
              [k \in 1 .. N |->
                 ExpOf(4 * N, InvComplete(4 * N, N, Delta(4 * N, N, n0 - 1, 0))[k - 1])]]]
ExportTable ==
  TableDir # "" =>
     JsonSerialize(TableDir \o "/ft_" \o ToString(len) \o ".json", Row(len))
=============================================================================
