---------------------------- MODULE BathFunctions ----------------------------
(***************************************************************************)
(* Addition of bath correlation functions / spectral densities             *)
(* (quantarhei/qm/corfunctions/correlationfunctions.py: __init__ with a    *)
(* list of parameter sets, __add__, __iadd__ / add_to_data2, add_to_data,  *)
(* copy; spectraldensities.py mirrors them).                               *)
(*                                                                         *)
(* An object is its parameter list (components) and, parallel to it, the   *)
(* list of what was actually built into its data: which component with     *)
(* which builder.  `x + y` REBUILDS x from x.params (dispatching each       *)
(* component on its type) and then adds y's data; `x += y` adds y's data   *)
(* in place (y is rebuilt first if y is x); copy rebuilds from params.     *)
(***************************************************************************)
EXTENDS Integers, Sequences, FiniteSets, TLC

CONSTANTS Comps,        \* component ids
          MaxObjs,      \* objects alive
          MaxLen,       \* components per object
          MaxSteps,
          Dispatch,     \* "own": each component is built by the builder of
                        \*   its own type (the code, after the repair);
                        \*   "last": by the builder of the LAST component of
                        \*   the list (negative control)
          CheckFirst    \* TRUE: the temperature test precedes the in-place
                        \*   update (the code, after the repair); FALSE: it
                        \*   follows it (negative control)

\* static description of the components: type, temperature, weight of lamb
TypeOf(c) == CASE c = "a1" -> "OB" [] c = "b1" -> "UB" [] c = "h1" -> "OBHT"
               [] c = "a2" -> "OB" [] c = "v1" -> "VAL" [] c = "c1" -> "OB"
TempOf(c) == IF c = "a2" THEN 2 ELSE 1
LambOf(c) == CASE c = "a1" -> 1 [] c = "b1" -> 10 [] c = "h1" -> 100
               [] c = "a2" -> 1000 [] c = "v1" -> 10000 [] c = "c1" -> 100000
Rebuildable(c) == TypeOf(c) # "VAL"

VARIABLES objs,     \* sequence of [params, built, lamb, temp]
          steps, last

vars == <<objs, steps, last>>

Init == objs = << >> /\ steps = 0 /\ last = "init"

Built(c, b) == [c |-> c, b |-> b]

\* CorrelationFunction(axis, params): build every component of the list
Rebuild(ps) ==
  [i \in 1 .. Len(ps) |->
     Built(ps[i], IF Dispatch = "own" THEN TypeOf(ps[i])
                  ELSE TypeOf(ps[Len(ps)]))]
RECURSIVE SumLamb(_)
SumLamb(ps) == IF ps = << >> THEN 0 ELSE LambOf(Head(ps)) + SumLamb(Tail(ps))
CanRebuild(ps) == \A i \in 1 .. Len(ps) : Rebuildable(ps[i])
SameTemp(ps) == \A i, j \in 1 .. Len(ps) : TempOf(ps[i]) = TempOf(ps[j])

Tick == steps' = steps + 1

New(c) ==
  /\ Len(objs) < MaxObjs
  /\ objs' = Append(objs, [params |-> <<c>>, built |-> <<Built(c, TypeOf(c))>>,
                           lamb |-> LambOf(c), temp |-> TempOf(c)])
  /\ last' = "ok" /\ Tick

\* z = x + y
Add(x, y) ==
  /\ x <= Len(objs) /\ y <= Len(objs)
  /\ Len(objs) < MaxObjs
  /\ Len(objs[x].params) + Len(objs[y].params) <= MaxLen
  /\ IF CanRebuild(objs[x].params) /\ objs[x].temp = objs[y].temp
       THEN /\ objs' = Append(objs,
                 [params |-> objs[x].params \o objs[y].params,
                  built  |-> Rebuild(objs[x].params) \o objs[y].built,
                  lamb   |-> SumLamb(objs[x].params) + objs[y].lamb,
                  temp   |-> objs[x].temp])
            /\ last' = "ok"
       ELSE /\ UNCHANGED objs /\ last' = "refused"
  /\ Tick

\* x += y
IAdd(x, y) ==
  /\ x <= Len(objs) /\ y <= Len(objs)
  /\ Len(objs[x].params) + Len(objs[y].params) <= MaxLen
  /\ LET yb == IF x = y THEN Rebuild(objs[y].params) ELSE objs[y].built
         ok == (x # y \/ CanRebuild(objs[y].params))
               /\ objs[x].temp = objs[y].temp
     IN IF ok
          THEN /\ objs' = [objs EXCEPT ![x] =
                    [params |-> @.params \o objs[y].params,
                     built  |-> @.built \o yb,
                     lamb   |-> @.lamb + objs[y].lamb,
                     temp   |-> @.temp]]
               /\ last' = "ok"
        ELSE IF (x # y \/ CanRebuild(objs[y].params)) /\ ~CheckFirst
          \* data and lamb already updated when the temperature test raises
          THEN /\ objs' = [objs EXCEPT ![x] =
                    [params |-> @.params, built |-> @.built \o yb,
                     lamb |-> @.lamb + objs[y].lamb, temp |-> @.temp]]
               /\ last' = "refused"
        ELSE /\ UNCHANGED objs /\ last' = "refused"
  /\ Tick

\* z = x.copy()
Copy(x) ==
  /\ x <= Len(objs)
  /\ Len(objs) < MaxObjs
  /\ IF CanRebuild(objs[x].params)
       THEN /\ objs' = Append(objs, [params |-> objs[x].params,
                                     built |-> Rebuild(objs[x].params),
                                     lamb |-> SumLamb(objs[x].params),
                                     temp |-> objs[x].temp])
            /\ last' = "ok"
       ELSE UNCHANGED objs /\ last' = "refused"
  /\ Tick

Next ==
  \/ \E c \in Comps : New(c)
  \/ \E x, y \in 1 .. MaxObjs : Add(x, y)
  \/ \E x, y \in 1 .. MaxObjs : IAdd(x, y)
  \/ \E x \in 1 .. MaxObjs : Copy(x)

Spec == Init /\ [][Next]_vars
Bounded == steps < MaxSteps

(* ------------------------------- properties ---------------------------- *)
\* the data of every object are the sum of the data of its components, each
\* built by the formula of its own type
DataIsSumOfComponents ==
  \A k \in 1 .. Len(objs) :
     /\ Len(objs[k].built) = Len(objs[k].params)
     /\ \A i \in 1 .. Len(objs[k].params) :
          objs[k].built[i] = Built(objs[k].params[i], TypeOf(objs[k].params[i]))

ReorganisationEnergyAdditive ==
  \A k \in 1 .. Len(objs) : objs[k].lamb = SumLamb(objs[k].params)

OneTemperature ==
  \A k \in 1 .. Len(objs) : SameTemp(objs[k].params)
                            /\ objs[k].temp = TempOf(objs[k].params[1])

RefusalChangesNothing == [][last' = "refused" => objs' = objs]_vars
=============================================================================
