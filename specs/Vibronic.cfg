CONSTANTS
  MaxMult = 2
SPECIFICATION Spec
INVARIANT ProductOfLevelCounts
INVARIANT TotalCount
INVARIANT ExportTable
CHECK_DEADLOCK FALSE
