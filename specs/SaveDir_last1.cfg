CONSTANTS
  Tags = {1, 2, 3}
  Names = {101, 102}
  NameBase = 100
  MaxSaves = 4
  AutoRule = "last+1"
SPECIFICATION Spec
INVARIANT NothingLost
CHECK_DEADLOCK FALSE
