------------------------------- MODULE ShortExp -------------------------------
(***************************************************************************)
(* The short-time (Taylor) expansion with which quantarhei propagates      *)
(* density matrices (qm/propagators/rdmpropagator.py:                      *)
(* __propagate_short_exp, __propagate_short_exp_with_relaxation,           *)
(* ..._with_rel_operators, _COM, _TTI, _OTI; setDtRefinement) over exact   *)
(* Gaussian rationals.                                                     *)
(*                                                                         *)
(*   for each stored time:                                                 *)
(*     for jj in range(Nref):                     (refinement)             *)
(*        for ll in 1..L:  rho1 := (dt/ll) G rho1 ;  rho2 += rho1          *)
(*        rho1 := rho2                                                     *)
(*     store rho2                                                          *)
(*                                                                         *)
(* with G rho = -i [H, rho] + K rho L^+ + L rho K^T - K^T L rho - rho L^+ K*)
(* (Lindblad: L = (rate/2) K; here rate = 2).  The inner step is dt = 1/q. *)
(* Numerators are Gaussian integers over the common denominator            *)
(* (q^L L!)^(inner steps) * den0, so all arithmetic is exact.              *)
(***************************************************************************)
EXTENDS Integers, Sequences, FiniteSets, TLC, Json, IOUtils

Dim == 2
Idx == 1 .. Dim

(* ----------------------------- Gaussian integers ----------------------- *)
C0 == <<0, 0>>
Cadd(x, y) == <<x[1] + y[1], x[2] + y[2]>>
Csub(x, y) == <<x[1] - y[1], x[2] - y[2]>>
Cmul(x, y) == <<x[1] * y[1] - x[2] * y[2], x[1] * y[2] + x[2] * y[1]>>
Cconj(x) == <<x[1], 0 - x[2]>>
Cscale(k, x) == <<k * x[1], k * x[2]>>
MinusI(x) == <<x[2], 0 - x[1]>>                       \* -i * x
CsumIdx(f) == LET S[i \in 0 .. Dim] == IF i = 0 THEN C0 ELSE Cadd(S[i - 1], f[i])
              IN S[Dim]
MMul(A, B) == [a \in Idx |-> [b \in Idx |->
                 CsumIdx([x \in Idx |-> Cmul(A[a][x], B[x][b])])]]
MAdd(A, B) == [a \in Idx |-> [b \in Idx |-> Cadd(A[a][b], B[a][b])]]
MSub(A, B) == [a \in Idx |-> [b \in Idx |-> Csub(A[a][b], B[a][b])]]
MScale(k, A) == [a \in Idx |-> [b \in Idx |-> Cscale(k, A[a][b])]]
MT(A) == [a \in Idx |-> [b \in Idx |-> A[b][a]]]
MDag(A) == [a \in Idx |-> [b \in Idx |-> Cconj(A[b][a])]]
MMinusI(A) == [a \in Idx |-> [b \in Idx |-> MinusI(A[a][b])]]
Tr(A) == CsumIdx([a \in Idx |-> A[a][a]])
ZeroM == [a \in Idx |-> [b \in Idx |-> C0]]

(* ------------------------------- the generator ------------------------- *)
Gen(H, K, rho) ==
  LET com == MMinusI(MSub(MMul(H, rho), MMul(rho, H)))       \* -i [H, rho]
      Kd == MT(K)  L == K  Ld == MDag(K)                     \* rate = 2
      rel == MSub(MSub(MAdd(MMul(K, MMul(rho, Ld)), MMul(L, MMul(rho, Kd))),
                       MMul(MMul(Kd, L), rho)),
                  MMul(rho, MMul(Ld, K)))
  IN MAdd(com, rel)

(* ------------------------------- instances ----------------------------- *)
R(x) == <<x, 0>>
Hs == << << <<R(0), R(1)>>, <<R(1), R(0)>> >>,                 \* sigma_x
         << <<R(0), R(1)>>, <<R(1), R(1)>> >>,
         << <<R(1), <<0, 1>> >>, << <<0, -1>>, R(0)>> >> >>     \* complex Hermitian
Ks == << ZeroM,                                                  \* no relaxation
         << <<R(0), R(1)>>, <<R(0), R(0)>> >>,                   \* |1><2|
         << <<R(0), R(0)>>, <<R(0), R(1)>> >> >>                 \* |2><2|
\* initial states as numerators over 2
Rho0s == << << <<R(2), R(0)>>, <<R(0), R(0)>> >>,
            << <<R(1), R(1)>>, <<R(1), R(1)>> >>,
            << <<R(1), <<0, -1>> >>, << <<0, 1>>, R(1)>> >> >>
Den0 == 2

Fact(n) == LET F[i \in 0 .. n] == IF i = 0 THEN 1 ELSE i * F[i - 1] IN F[n]
Pow(b, e) == LET P[i \in 0 .. e] == IF i = 0 THEN 1 ELSE b * P[i - 1] IN P[e]

\* b^e saturating above Cap (TLC integers are 32 bit)
Cap == 100000000
PowCap(b, e) == LET P[i \in 0 .. e] ==
                      IF i = 0 THEN 1
                      ELSE IF P[i - 1] > Cap \div b THEN Cap + 1 ELSE b * P[i - 1]
                IN P[e]

CONSTANTS Orders,      \* set of expansion orders, e.g. {2, 4, 6}
          MaxDen       \* keep (q^L L!)^k * Den0 * (growth) inside 32 bits

VARIABLES ih, ik, ir,        \* instance: Hamiltonian, K operator, rho0
          L, nref, q0,       \* order, refinement, 1/(outer step)
          nt,                \* number of stored times (incl. t = 0)
          w, acc, base, den, \* recurrence state (numerators) and denominator
          ll, jj, ii,
          stored,            \* sequence of [num, den]
          pc

vars == <<ih, ik, ir, L, nref, q0, nt, w, acc, base, den, ll, jj, ii, stored, pc>>

q == q0 * nref                     \* inner step = 1/q
StepDen == Pow(q, L) * Fact(L)
Coef(l) == Pow(q, L - l) * (Fact(L) \div Fact(l))

Init ==
  /\ ih \in 1 .. Len(Hs) /\ ik \in 1 .. Len(Ks) /\ ir \in 1 .. Len(Rho0s)
  /\ L \in Orders /\ nref \in 1 .. 2 /\ q0 \in 1 .. 2 /\ nt \in 2 .. 3
  \* numerators grow like den * |G|^L: keep them inside 32 bits
  /\ PowCap(PowCap(q0 * nref, L) * Fact(L), (nt - 1) * nref)
        <= MaxDen \div PowCap(4, L)
  /\ w = Rho0s[ir] /\ base = Rho0s[ir] /\ acc = ZeroM /\ den = Den0
  /\ ll = 0 /\ jj = 0 /\ ii = 1
  /\ stored = << [num |-> Rho0s[ir], den |-> Den0] >>
  /\ pc = "run"

\* one pass of `for ll in range(1, L+1)`
Term ==
  /\ pc = "run" /\ ll < L
  /\ LET w1 == Gen(Hs[ih], Ks[ik], w) IN
     /\ w' = w1
     /\ acc' = MAdd(acc, MScale(Coef(ll + 1), w1))
  /\ ll' = ll + 1
  /\ UNCHANGED <<ih, ik, ir, L, nref, q0, nt, base, den, jj, ii, stored, pc>>

\* `rho1 = rho2` at the end of one refined step
Refine ==
  /\ pc = "run" /\ ll = L /\ jj < nref
  /\ LET new == MAdd(MScale(Coef(0), base), acc) IN w' = new /\ base' = new
  /\ den' = den * StepDen
  /\ acc' = ZeroM
  /\ ll' = 0 /\ jj' = jj + 1
  /\ UNCHANGED <<ih, ik, ir, L, nref, q0, nt, ii, stored, pc>>

\* `pr.data[indx] = rho2`
Store ==
  /\ pc = "run" /\ ll = 0 /\ jj = nref
  /\ stored' = Append(stored, [num |-> w, den |-> den])
  /\ jj' = 0 /\ ii' = ii + 1
  /\ pc' = IF ii + 1 = nt THEN "done" ELSE "run"
  /\ UNCHANGED <<ih, ik, ir, L, nref, q0, nt, w, acc, base, den, ll>>

Next == Term \/ Refine \/ Store
Spec == Init /\ [][Next]_vars

(* ------------------------------- properties ---------------------------- *)
\* every term of the expansion beyond the zeroth is traceless, so the trace
\* is preserved EXACTLY, whatever the order and the refinement
TraceExact ==
  \A n \in 1 .. Len(stored) :
     Cscale(Den0, Tr(stored[n].num)) = Cscale(stored[n].den, Tr(Rho0s[ir]))
HermitianExact ==
  \A n \in 1 .. Len(stored) : MDag(stored[n].num) = stored[n].num
\* inside a step as well
RunningHermitian == MDag(acc) = acc /\ MDag(w) = w /\ Tr(acc) = C0

(* --------------------------- table for the harness --------------------- *)
TableDir == IF "TABLE_DIR" \in DOMAIN IOEnv THEN IOEnv.TABLE_DIR ELSE ""
ExportTable ==
  (pc = "done" /\ TableDir # "") =>
    JsonSerialize(TableDir \o "/se_" \o ToString(ih) \o ToString(ik)
       \o ToString(ir) \o "_" \o ToString(L) \o ToString(nref) \o ToString(q0)
       \o ToString(nt) \o ".json",
      [h |-> Hs[ih], k |-> Ks[ik], rho0 |-> Rho0s[ir], den0 |-> Den0,
       order |-> L, nref |-> nref, q0 |-> q0, nt |-> nt, stored |-> stored])
=============================================================================
