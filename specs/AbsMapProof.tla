---------------------------- MODULE AbsMapProof ----------------------------
(* Unbounded (TLAPS): with the pipeline of the code (hfft(at, n = 2 Nt),   *)
(* fftshift, reversal keeping index 0, cut [Nt//2 : Nt + Nt//2]) a tone    *)
(* with kappa cycles per 2 Nt samples lands on the sample to which the     *)
(* returned axis assigns exactly kappa -- for EVERY Nt and every kappa in  *)
(* the window.  Same operators as AbsMap.tla, parameterised.               *)
EXTENDS Integers

M(n) == 2 * n
HfftPeak(n, k) == (0 - k) % M(n)
Shifted(n, k) == (HfftPeak(n, k) + (M(n) \div 2)) % M(n)
Flipped(n, k) == M(n) - 1 - Shifted(n, k)
Reversed(n, k) == (Flipped(n, k) + 1) % M(n)
Landing(n, k) == Reversed(n, k) - (n \div 2)
AxisIndex(n, p) == p + (n \div 2) - n
InWindow(n, k) == Landing(n, k) >= 0 /\ Landing(n, k) < n

LEMMA ModPos == \A m \in Nat \ {0} : \A x \in 0 .. (m - 1) : x % m = x
  OBVIOUS
LEMMA ModNeg == \A m \in Nat \ {0} : \A x \in (0 - m) .. (0 - 1) : x % m = x + m
  OBVIOUS
LEMMA ModOver == \A m \in Nat \ {0} : \A x \in m .. (2 * m - 1) : x % m = x - m
  OBVIOUS
LEMMA Half == \A n \in Nat : (2 * n) \div 2 = n
  OBVIOUS

THEOREM ExactOnGrid ==
  \A n \in Nat \ {0} : \A k \in (1 - n) .. (n - 1) :
      AxisIndex(n, Landing(n, k)) = k
<1> SUFFICES ASSUME NEW n \in Nat \ {0}, NEW k \in (1 - n) .. (n - 1)
             PROVE  AxisIndex(n, Landing(n, k)) = k
  OBVIOUS
<1> DEFINE m == 2 * n
<1>0. m \in Nat \ {0} /\ m \div 2 = n
  BY Half
<1>1. CASE k = 0
  <2>1. HfftPeak(n, k) = 0
    BY <1>1, <1>0, ModPos DEF HfftPeak, M
  <2>2. Shifted(n, k) = n
    BY <2>1, <1>0, ModPos DEF Shifted, M
  <2>3. Reversed(n, k) = n
    BY <2>2, <1>0, ModPos DEF Reversed, Flipped, M
  <2> QED BY <2>3, <1>1 DEF AxisIndex, Landing
<1>2. CASE k > 0
  <2>0. (0 - k) \in (0 - m) .. (0 - 1)
    BY <1>2
  <2>1. HfftPeak(n, k) = m - k
    BY <2>0, <1>0, ModNeg DEF HfftPeak, M
  <2>2. Shifted(n, k) = n - k
    BY <2>1, <1>2, <1>0, ModOver DEF Shifted, M
  <2>3. Reversed(n, k) = n + k
    BY <2>2, <1>2, <1>0, ModPos DEF Reversed, Flipped, M
  <2> QED BY <2>3 DEF AxisIndex, Landing
<1>3. CASE k < 0
  <2>1. HfftPeak(n, k) = 0 - k
    BY <1>3, <1>0, ModPos DEF HfftPeak, M
  <2>2. Shifted(n, k) = n - k
    BY <2>1, <1>3, <1>0, ModPos DEF Shifted, M
  <2>3. Reversed(n, k) = n + k
    BY <2>2, <1>3, <1>0, ModPos DEF Reversed, Flipped, M
  <2> QED BY <2>3 DEF AxisIndex, Landing
<1> QED BY <1>1, <1>2, <1>3
=============================================================================
