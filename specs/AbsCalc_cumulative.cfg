CONSTANTS
  Half = 8
  Rwas = {20, 23, 25}
  Oms = {18, 21, 24, 27}
  MaxCalls = 7
  AxisAbsolute = FALSE
SPECIFICATION Spec
CONSTRAINT Bounded
INVARIANT LineOnItsEnergy
CHECK_DEADLOCK FALSE
