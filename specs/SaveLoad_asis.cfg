CONSTANTS
  Objs = {"h", "a", "b"}
  CtxOps = {"h"}
  MaxDepth = 2
  MaxSteps = 7
  ExitPopsTrans = TRUE
  SaveNormalises = FALSE
SPECIFICATION SLSpec
CONSTRAINT Bounded
INVARIANT Bookkeeping
INVARIANT NoLostObject
INVARIANT RepMatchesTag
INVARIANT Restored
INVARIANT LoadedObjectIsManaged
CHECK_DEADLOCK FALSE
