CONSTANTS
  MaxSize = 8
  StartSet <- StartsLarge
  MaxLen = 12
  MaxLoops = 2
  TableFile <- TableFileEnv
  HonourStart = TRUE
SPECIFICATION TableSpec
INVARIANT PartitionEverywhereInv
CHECK_DEADLOCK FALSE
