CONSTANTS
  Variant = "code"
  MaxNE = 3
  TransferModes = {"identity"}
INIT TInit
NEXT TNext
INVARIANT RecR1g
INVARIANT RecR2g
INVARIANT RecR3g
INVARIANT RecR4g
INVARIANT RecR1f
INVARIANT RecR2f
INVARIANT TSound
INVARIANT TComplete
CHECK_DEADLOCK FALSE
