------------------------------- MODULE SaveLoad -------------------------------
(***************************************************************************)
(* Saving and loading of basis-managed objects (core/parcel.py: the whole  *)
(* object, including its stored data and its basis tag, is pickled;        *)
(* load_parcel returns the unpickled object under whatever manager state   *)
(* is current and does not register it) on top of BasisManager.            *)
(***************************************************************************)
EXTENDS BasisManager

CONSTANTS SaveNormalises   \* TRUE: a managed object is pickled in the basis
                           \*   outside of all contexts (the code, after the
                           \*   repair); FALSE: as it is stored (negative control)

VARIABLES blob,     \* the saved parcel: [rep, tag] or "none"
          target    \* object name that a load will create

svars == <<vars, blob, target>>

NoBlob == [rep |-> << -1 >>, tag |-> -1]

SLInit == Init /\ blob = NoBlob /\ target \in Objs

\* obj.save(file)
Save(o) ==
  /\ ~exc /\ exists[o] /\ consistent[o] /\ ~prot[o] /\ o # target
  /\ blob' = IF SaveNormalises THEN [rep |-> << >>, tag |-> 0]
             ELSE [rep |-> rep[o], tag |-> tag[o]]
  /\ UNCHANGED <<vars, target>>

\* new = load_parcel(file): created with the pickled tag and data, NOT
\* registered with the manager
Load ==
  /\ ~exc /\ blob # NoBlob /\ ~exists[target]
  /\ exists' = [exists EXCEPT ![target] = TRUE]
  /\ tag' = [tag EXCEPT ![target] = blob.tag]
  /\ rep' = [rep EXCEPT ![target] = blob.rep]
  /\ steps' = steps + 1
  /\ UNCHANGED <<depth, trans, registered, flag, prot, frozenAt, consistent,
                 ntok, exc, blob, target>>

\* the actions of BasisManager, named so that simulated behaviours carry them
Keep2 == UNCHANGED <<blob, target>>
SCreate(o) == Create(o) /\ Keep2
SAccess(o) == Access(o) /\ Keep2
SProtect(o) == Protect(o) /\ Keep2
SUnprotect(o) == Unprotect(o) /\ Keep2
SEnter(op) == Enter(op) /\ Keep2
SExit == Exit /\ Keep2
SRaise == Raise /\ Keep2
SCatch == Catch /\ Keep2

SLNext ==
  \/ \E o \in Objs : SCreate(o) \/ SAccess(o) \/ SProtect(o) \/ SUnprotect(o)
  \/ \E op \in CtxOps : SEnter(op)
  \/ SExit \/ SRaise \/ SCatch
  \/ \E o \in Objs : Save(o)
  \/ Load

SLSpec == SLInit /\ [][SLNext]_svars

\* a loaded object is as usable as any other: its tag is on the stack, it is
\* registered where its tag says, and its data are in the basis of its tag
LoadedObjectIsManaged ==
  exists[target] =>
     /\ tag[target] <= depth
     /\ (tag[target] > 0 => target \in registered[tag[target]])
     /\ (consistent[target] /\ ~prot[target]) => rep[target] = Path(tag[target])
=============================================================================
