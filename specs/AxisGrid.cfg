CONSTANTS
  StartSet <- StartsA
  MaxLen = 5
  StepSet = {2, 4, 6}
  CheckStep = TRUE
INIT Init
NEXT Next
INVARIANT ISubsetSound
INVARIANT ISubsetComplete
INVARIANT IOnePoint
INVARIANT ILocate
INVARIANT INearest
INVARIANT IBounds
CHECK_DEADLOCK FALSE
