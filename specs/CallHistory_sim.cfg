CONSTANTS
  MaxCalls = 6
  HeomResets = TRUE
  FreeModeLocal = TRUE
  RestoreOnError = TRUE
  SplitCopies = TRUE
  NefRecomputes = TRUE
  NrefPersists = TRUE
SPECIFICATION Spec
CONSTRAINT Bounded
CHECK_DEADLOCK FALSE
