CONSTANTS
  MaxCalls = 6
  HeomResets = TRUE
  NefRecomputes = TRUE
  NrefPersists = TRUE
SPECIFICATION Spec
CONSTRAINT Bounded
CHECK_DEADLOCK FALSE
