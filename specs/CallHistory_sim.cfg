CONSTANTS
  MaxCalls = 6
  HeomResets = TRUE
  NrefPersists = TRUE
SPECIFICATION Spec
CONSTRAINT Bounded
CHECK_DEADLOCK FALSE
