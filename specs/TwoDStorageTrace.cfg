CONSTANTS
  AddTypes = {"R1g", "R2g", "R3g", "R4g"}
  Tags = {"a", "b", "c"}
  Values = {1}
  MaxOps = 0
  TypesIntoPathways = "stored"
SPECIFICATION TraceSpec
INVARIANT Accepting
INVARIANT TotalConserved
INVARIANT TypeViewsConserved
INVARIANT PathwayViewsConserved
INVARIANT ProcViewsConserved
INVARIANT SigViewsConserved
INVARIANT OneLevel
CHECK_DEADLOCK FALSE
