----------------------------- MODULE UnitsTrace -----------------------------
(* Validates traces recorded from the real Manager / context managers      *)
(* against UnitsManager.  Events are the primitive transitions (one per    *)
(* Manager method / context manager method actually executed, with the     *)
(* complete projected manager state after it) plus begin/end markers of    *)
(* public library calls made by the driver.                                *)
EXTENDS UnitsManager, Json, IOUtils

Traces == JsonDeserialize(IOEnv.TRACE_FILE).traces

VARIABLES tid, l, tainted
tvars == <<vars, tid, l, tainted>>

Ev == Traces[tid][l]

TraceInit == /\ tid \in 1 .. Len(Traces) /\ l = 1 /\ Init /\ tainted = FALSE

SavedOf(e) == IF e.saved_t = "" THEN NoSaved
              ELSE [x \in {e.saved_t} |-> e.saved_u]

\* the logged manager state is the specified one
Logged ==
  /\ cur' = [energy |-> Ev.energy, length |-> Ev.length]
  /\ saved' = SavedOf(Ev)
  /\ euCount' = Ev.euCount
  /\ euFlag' = Ev.euFlag

Keep == UNCHANGED <<pool, exc, steps, viol>>

TEnterEU == /\ Ev.ev = "enter_eu" /\ EnterEUP(Ev.units, InLib)
            /\ UNCHANGED <<frames, tainted>> /\ Keep
TExitEU  == /\ Ev.ev = "exit_eu" /\ ExitEUP
            /\ UNCHANGED <<frames, tainted>> /\ Keep
TEnterLen == /\ Ev.ev = "enter_len" /\ EnterLenP(Ev.units, InLib)
             /\ UNCHANGED <<frames, tainted>> /\ Keep
TExitLen == /\ Ev.ev = "exit_len" /\ ExitLenP
            /\ UNCHANGED <<frames, tainted>> /\ Keep
TRawSet == /\ Ev.ev = "rawset" /\ RawSetP(Ev.utype, Ev.units)
           /\ UNCHANGED <<ctx, euCount, euFlag, frames, tainted>> /\ Keep
TRawUnset == /\ Ev.ev = "rawunset" /\ RawUnsetOK(Ev.utype) /\ RawUnsetP(Ev.utype)
             /\ UNCHANGED <<ctx, euCount, euFlag, frames, tainted>> /\ Keep

\* Manager.set_current_units with unknown units: the saved slot has already
\* been overwritten when the method raises; the active units stay
TRawSetFail == /\ Ev.ev = "rawset_fail"
               /\ saved' = [x \in {Ev.utype} |-> cur[Ev.utype]]
               /\ UNCHANGED <<cur, ctx, euCount, euFlag, frames, tainted>> /\ Keep
\* unit types outside the projection (frequency, temperature, ...): they
\* share the single saved slot with energy and length
TRawSetOther == /\ Ev.ev = "rawset_other" /\ Ev.utype \notin DOMAIN cur
                /\ DOMAIN saved' \subseteq {Ev.utype}
                /\ UNCHANGED <<cur, ctx, euCount, euFlag, frames, tainted>> /\ Keep
TRawUnsetOther == /\ Ev.ev = "rawunset_other" /\ Ev.utype \in DOMAIN saved
                  /\ UNCHANGED <<cur, saved, ctx, euCount, euFlag, frames, tainted>>
                  /\ Keep

TLibBegin ==
  /\ Ev.ev = "lib_begin"
  /\ frames' = Append(frames, [name |-> Ev.name, pc |-> 0, entry |-> cur,
                               bk |-> NoBk, depth |-> Len(ctx)])
  /\ UNCHANGED <<cur, saved, ctx, euCount, euFlag, pool, exc, steps, viol, tainted>>

TLibEnd ==
  /\ Ev.ev = "lib_end" /\ InLib /\ Top.name = Ev.name
  /\ Len(ctx) = Top.depth              \* its own contexts are closed
  /\ frames' = Front(frames)
  /\ viol' = (viol \/ (~Ev.exc /\ cur # Top.entry))
  /\ tainted' = (tainted \/ (Ev.exc /\ cur # Top.entry))
  /\ UNCHANGED <<cur, saved, ctx, euCount, euFlag, pool, exc, steps>>

TraceNext ==
  /\ l <= Len(Traces[tid])
  /\ l' = l + 1 /\ UNCHANGED tid
  /\ \/ (TEnterEU /\ Logged) \/ (TExitEU /\ Logged)
     \/ (TEnterLen /\ Logged) \/ (TExitLen /\ Logged)
     \/ (TRawSet /\ Logged) \/ (TRawUnset /\ Logged)
     \/ (TRawSetFail /\ Logged)
     \/ (Ev.ev = "rawset_other" /\ Logged /\ TRawSetOther)
     \/ (Ev.ev = "rawunset_other" /\ Logged /\ TRawUnsetOther)
     \/ TLibBegin \/ TLibEnd

TraceSpec == TraceInit /\ [][TraceNext]_tvars

Accepting == l <= Len(Traces[tid]) => ENABLED TraceNext

TCallerUnitsPreserved == ~tainted => CallerUnitsPreserved
=============================================================================
