--------------------------- MODULE BlockRangesLink ---------------------------
(* TLC checks that the transcription proved in BlockRangesProof.tla (TLAPS) *)
(* and the one model-checked and bound to the code in BlockRanges.tla define *)
(* the same functions (on the bounded domain of the configuration).          *)
EXTENDS BlockRanges

P == INSTANCE BlockRangesProof

SameFunctions ==
  \A sz \in 1 .. MaxSize, n \in 0 .. MaxLen, r \in 0 .. (MaxSize - 1) :
     r < sz => /\ P!N1(r, sz, n) = N1(r, sz, n)
                 /\ P!N2(r, sz, n) = N2(r, sz, n)

ASSUME SameFunctions

\* a one-state machine so that TLC has something to run
LinkInit == /\ size = 1 /\ start = 0 /\ stop = 0 /\ pos = <<>> /\ work = <<>>
            /\ phase = "reduced" /\ loop = 1
LinkNext == UNCHANGED vars
=============================================================================
