CONSTANTS
  NBaths = {2}
  Depths = {10, 12}
SPECIFICATION Spec
INVARIANT CompleteOnce
INVARIANT LevelByLevel
INVARIANT LinksInverse
INVARIANT NeighbourTests
INVARIANT ExportTable
PROPERTY Terminates
CHECK_DEADLOCK FALSE
