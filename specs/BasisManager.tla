---------------------------- MODULE BasisManager ----------------------------
(***************************************************************************)
(* Basis-change contexts (quantarhei/core/managers.py: Manager.basis_stack,*)
(* basis_transformations, basis_registered, set_new_basis,                 *)
(* transform_to_current_basis, register_with_basis; eigenbasis_of.__enter__*)
(* / __exit__; BasisManaged.protect_basis / unprotect_basis; the lazily    *)
(* transforming property getter/setter of utils/types.py; the constructors *)
(* of the basis-managed classes).                                          *)
(*                                                                         *)
(* Basis ids are reused (new id = current id + 1), so the stack is always  *)
(* 0..depth and is represented by `depth`.  Every context entered gets a   *)
(* fresh token; the representation of an object is the sequence of tokens  *)
(* whose transformations have been applied to its data and not undone.     *)
(***************************************************************************)
EXTENDS Integers, Sequences, FiniteSets, TLC

CONSTANTS Objs,        \* managed objects
          CtxOps,      \* subset of Objs that may be used as eigenbasis_of(op)
          MaxDepth,
          MaxSteps,
          ExitPopsTrans \* TRUE: the code as it is. FALSE: negative control
                        \* (__exit__ forgets to pop basis_transformations)

VARIABLES depth,       \* basis_stack = <<0, ..., depth>>
          trans,       \* tokens of basis_transformations[1..]
          registered,  \* [1..depth -> SUBSET Objs]   basis_registered
          flag,        \* _in_eigenbasis_of_context
          exists, tag, prot,
          rep,         \* representation path of each object
          frozenAt,    \* ghost: rep at the moment of protection
          consistent,  \* ghost: FALSE once an object was retagged by an exit
                       \* while protected (supported only as "frozen")
          ntok, exc, steps

vars == <<depth, trans, registered, flag, exists, tag, prot, rep, frozenAt,
          consistent, ntok, exc, steps>>

Front(s) == SubSeq(s, 1, Len(s) - 1)
Path(k) == SubSeq(trans, 1, k)          \* basis with id k

Init ==
  /\ depth = 0 /\ trans = << >> /\ registered = << >> /\ flag = FALSE
  /\ exists = [o \in Objs |-> FALSE]
  /\ tag = [o \in Objs |-> 0] /\ prot = [o \in Objs |-> FALSE]
  /\ rep = [o \in Objs |-> << >>]
  /\ frozenAt = [o \in Objs |-> << >>]
  /\ consistent = [o \in Objs |-> TRUE]
  /\ ntok = 0 /\ exc = FALSE /\ steps = 0

Tick == steps' = steps + 1

(* Manager.transform_to_current_basis(o) as called by the property getter  *)
(* / setter and by eigenbasis_of.__enter__: new values of (rep,tag,reg)    *)
AccessRep(o) ==
  IF prot[o] \/ tag[o] = depth THEN rep[o]
  ELSE rep[o] \o SubSeq(trans, tag[o] + 1, depth)
AccessTag(o) == IF prot[o] THEN tag[o] ELSE depth
AccessReg(o) ==
  IF prot[o] \/ tag[o] = depth THEN registered
  ELSE [registered EXCEPT ![depth] = @ \cup {o}]
AccessOK(o) == prot[o] \/ tag[o] <= depth     \* else "Basis ... not on stack"

\* constructors of Operator / SuperOperator / RelaxationTensor / dipole moment
Create(o) ==
  /\ ~exc /\ ~exists[o]
  /\ exists' = [exists EXCEPT ![o] = TRUE]
  /\ tag' = [tag EXCEPT ![o] = depth]
  /\ rep' = [rep EXCEPT ![o] = Path(depth)]
  /\ registered' = IF depth = 0 THEN registered
                   ELSE [registered EXCEPT ![depth] = @ \cup {o}]
  /\ UNCHANGED <<depth, trans, flag, prot, frozenAt, consistent, ntok, exc>>
  /\ Tick

\* reading or writing `data` (getter / setter)
Access(o) ==
  /\ ~exc /\ exists[o] /\ AccessOK(o)
  /\ rep' = [rep EXCEPT ![o] = AccessRep(o)]
  /\ tag' = [tag EXCEPT ![o] = AccessTag(o)]
  /\ registered' = AccessReg(o)
  /\ UNCHANGED <<depth, trans, flag, exists, prot, frozenAt, consistent, ntok,
                 exc>>
  /\ Tick

Protect(o) ==
  /\ ~exc /\ exists[o] /\ ~prot[o]
  /\ prot' = [prot EXCEPT ![o] = TRUE]
  /\ frozenAt' = [frozenAt EXCEPT ![o] = rep[o]]
  /\ UNCHANGED <<depth, trans, registered, flag, exists, tag, rep, consistent,
                 ntok, exc>>
  /\ Tick

Unprotect(o) ==
  /\ ~exc /\ exists[o] /\ prot[o]
  /\ prot' = [prot EXCEPT ![o] = FALSE]
  /\ UNCHANGED <<depth, trans, registered, flag, exists, tag, rep, frozenAt,
                 consistent, ntok, exc>>
  /\ Tick

\* with eigenbasis_of(op):   __enter__
Enter(op) ==
  /\ ~exc /\ exists[op] /\ depth < MaxDepth /\ AccessOK(op)
  \* transform_to_current_basis(op) if its tag differs from the current basis
  /\ LET rep1 == [rep EXCEPT ![op] = AccessRep(op)]
         tag1 == [tag EXCEPT ![op] = AccessTag(op)]
         reg1 == AccessReg(op)
     IN  /\ rep' = rep1 /\ tag' = tag1
         \* get_diagonalization_matrix + set_new_basis
         /\ ntok' = ntok + 1
         /\ trans' = Append(trans, ntok + 1)
         /\ depth' = depth + 1
         /\ registered' = Append(reg1, {})
  /\ flag' = TRUE
  /\ UNCHANGED <<exists, prot, frozenAt, consistent, exc>>
  /\ Tick

\* eigenbasis_of.__exit__ (normal, or with an exception propagating)
Strip(p, t) == IF p # << >> /\ p[Len(p)] = t THEN Front(p)
               ELSE Append(p, 0 - t)              \* corrupt: visible
Exit ==
  /\ depth > 0
  /\ LET bb == depth
         nb == depth - 1
         t  == trans[depth]
         R  == registered[bb]
     IN  /\ depth' = nb
         /\ trans' = IF ExitPopsTrans THEN Front(trans) ELSE trans
         /\ rep' = [o \in Objs |->
                      IF o \in R /\ ~prot[o] THEN Strip(rep[o], t) ELSE rep[o]]
         /\ tag' = [o \in Objs |-> IF o \in R THEN nb ELSE tag[o]]
         /\ consistent' = [o \in Objs |->
                             consistent[o] /\ ~(o \in R /\ prot[o])]
         /\ registered' = IF nb = 0 THEN << >>
                          ELSE [Front(registered) EXCEPT ![nb] = @ \cup R]
         /\ flag' = (nb > 0)
  /\ UNCHANGED <<exists, prot, frozenAt, ntok, exc>>
  /\ Tick

\* user code raises inside a context; Python leaves the contexts innermost
\* first; the user may catch at any level
Raise == /\ ~exc /\ depth > 0 /\ exc' = TRUE
         /\ UNCHANGED <<depth, trans, registered, flag, exists, tag, prot, rep,
                        frozenAt, consistent, ntok>>
         /\ Tick
Catch == /\ exc /\ exc' = FALSE
         /\ UNCHANGED <<depth, trans, registered, flag, exists, tag, prot, rep,
                        frozenAt, consistent, ntok>>
         /\ Tick

Next ==
  \/ \E o \in Objs : Create(o) \/ Access(o) \/ Protect(o) \/ Unprotect(o)
  \/ \E op \in CtxOps : Enter(op)
  \/ Exit
  \/ Raise \/ Catch

Spec == Init /\ [][Next]_vars

Bounded == steps < MaxSteps

(* ------------------------------- properties ---------------------------- *)
Bookkeeping ==
  /\ Len(trans) = depth
  /\ Len(registered) = depth
  /\ flag <=> (depth > 0)

NoLostObject ==
  \A o \in Objs : (exists[o] /\ tag[o] > 0) =>
       (tag[o] <= depth /\ o \in registered[tag[o]])

\* the stored representation of every (supported) object is exactly the basis
\* its tag names: implies Transparent (after Access the tag is the current
\* basis) and Restored (at depth 0 every tag is 0, every path empty)
RepMatchesTag ==
  \A o \in Objs : (exists[o] /\ consistent[o] /\ ~prot[o] /\ tag[o] <= depth)
       => rep[o] = Path(tag[o])

Restored ==
  depth = 0 => \A o \in Objs : (exists[o] /\ consistent[o] /\ ~prot[o]) =>
                   (tag[o] = 0 /\ rep[o] = << >>)

Frozen == \A o \in Objs : (exists[o] /\ prot[o]) => rep[o] = frozenAt[o]

Transparent ==
  [][\A o \in Objs : (exists'[o] /\ consistent'[o] /\ ~prot'[o] /\
        tag'[o] = depth') => rep'[o] = SubSeq(trans', 1, depth')]_vars

ExitRestoresBookkeeping ==
  [][depth' < depth =>
       (trans' = Front(trans) /\ Len(registered') = depth - 1)]_vars
=============================================================================
