----------------------------- MODULE EvolSuperOp -----------------------------
(***************************************************************************)
(* Bookkeeping of the evolution superoperator for a time-independent       *)
(* generator (qm/liouvillespace/evolutionsuperoperator.py: __init__,       *)
(* set_dense_dt, _initialize_data, calculate, calculate_next, the          *)
(* composition of the one-step map).                                       *)
(*                                                                         *)
(* U_n denotes the map over one grid step computed with n dense sub-steps. *)
(* A stored slice is abstracted to the pair <<k, n>> = (U_n)^k ; the       *)
(* identity is <<0, n>> for every n.                                       *)
(***************************************************************************)
EXTENDS Integers, Sequences, FiniteSets, TLC

CONSTANTS Nt,          \* number of grid points
          MaxDense,
          MaxSteps

VARIABLES mode,        \* "all" | "jit"
          dense,       \* current setting of set_dense_dt
          now,         \* self.now
          arr,         \* mode all / save: sequence of slices (or << >>)
          cur,         \* jit without save: the single stored slice
          udt,         \* self.Udt remembered by calculate_next (0: none)
          saving,      \* jit: whether the storage is an array (save=True)
          steps, last

vars == <<mode, dense, now, arr, cur, udt, saving, steps, last>>

Ident == <<0, 0>>
Pw(k, n) == IF k = 0 THEN Ident ELSE <<k, n>>

Init ==
  /\ mode \in {"all", "jit"}
  /\ dense = 1 /\ now = 0
  \* __init__: identity at t = 0 (mode all: whole array allocated)
  /\ arr = IF mode = "all" THEN [i \in 1 .. Nt |-> IF i = 1 THEN Ident ELSE <<-1, -1>>]
           ELSE << >>
  /\ cur = Ident
  /\ udt = 0 /\ saving = FALSE
  /\ steps = 0 /\ last = "init"

Tick == steps' = steps + 1

SetDense(n) ==
  /\ dense' = n
  /\ UNCHANGED <<mode, now, arr, cur, udt, saving>>
  /\ last' = "ok" /\ Tick

\* calculate(): all slices at once
Calculate ==
  /\ IF mode = "all"
       THEN /\ arr' = [i \in 1 .. Nt |-> Pw(i - 1, dense)]
            /\ last' = "ok"
       ELSE /\ UNCHANGED arr /\ last' = "refused"
  /\ UNCHANGED <<mode, dense, now, cur, udt, saving>> /\ Tick

\* calculate_next(save)
CalculateNext(save) ==
  /\ now < Nt - 1
  /\ IF mode # "jit"
       THEN /\ last' = "refused" /\ UNCHANGED <<now, arr, cur, udt, saving>>
     ELSE IF now = 0
       THEN \* _initialize_data(save) and the first step
            /\ udt' = dense
            /\ saving' = save
            /\ IF save THEN /\ arr' = [i \in 1 .. Nt |->
                                         IF i = 1 THEN Ident
                                         ELSE IF i = 2 THEN Pw(1, dense)
                                         ELSE <<-1, -1>>]
                            /\ UNCHANGED cur
               ELSE /\ cur' = Pw(1, dense) /\ UNCHANGED arr
            /\ now' = 1 /\ last' = "ok"
     ELSE IF save # saving
       THEN \* storage of the other shape: numpy raises, nothing is changed
            /\ last' = "refused" /\ UNCHANGED <<now, arr, cur, udt, saving>>
     ELSE /\ IF save THEN /\ arr' = [arr EXCEPT ![now + 2] = Pw(arr[now + 1][1] + 1, udt)]
                          /\ UNCHANGED cur
             ELSE /\ cur' = Pw(cur[1] + 1, udt) /\ UNCHANGED arr
          /\ now' = now + 1 /\ last' = "ok" /\ UNCHANGED <<udt, saving>>
  /\ UNCHANGED <<mode, dense>> /\ Tick

Next ==
  \/ \E n \in 1 .. MaxDense : SetDense(n)
  \/ Calculate
  \/ \E s \in BOOLEAN : CalculateNext(s)

Spec == Init /\ [][Next]_vars
Bounded == steps < MaxSteps

(* ------------------------------- properties ---------------------------- *)
IdentityAtZero ==
  /\ mode = "all" => arr[1] = Ident
  /\ (mode = "jit" /\ saving) => arr[1] = Ident
  /\ (mode = "jit" /\ now = 0) => cur = Ident

\* step by step = all at once: after k incremental steps the stored value is
\* the k-th power of ONE one-step map
StepByStepIsPower ==
  (mode = "jit" /\ now > 0) =>
     IF saving THEN \A i \in 1 .. now + 1 : arr[i] = Pw(i - 1, udt)
     ELSE cur = Pw(now, udt)

\* semigroup on the grid: powers add
Semigroup ==
  mode = "all" =>
    \A i, j \in 1 .. Nt : (i + j - 1 <= Nt /\ arr[i][1] >= 0 /\ arr[j][1] >= 0
                           /\ arr[i + j - 1][1] >= 0 /\ i > 1 /\ j > 1) =>
         (arr[i + j - 1][1] = arr[i][1] + arr[j][1] /\ arr[i][2] = arr[j][2])

RefusalChangesNothing ==
  [][last' = "refused" => (arr' = arr /\ cur' = cur /\ now' = now)]_vars
=============================================================================
