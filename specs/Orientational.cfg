CONSTANTS
  M4Diag = 4
SPECIFICATION Spec
INVARIANT PrefactorIsExactAverage
CHECK_DEADLOCK FALSE
