------------------------------- MODULE Vibronic -------------------------------
(***************************************************************************)
(* Vibronic state space of an aggregate of two-level molecules with        *)
(* harmonic modes (aggregate_base.allstates / aggregate_states             *)
(* ElectronicState.vsignatures(approx=None), build()).                     *)
(* Every electronic state carries the full product of the declared level   *)
(* counts of all modes of all molecules (the count of a mode depends on    *)
(* the electronic state of its molecule); states are generated electronic  *)
(* state by electronic state, vibrational signatures in numpy.ndindex      *)
(* order (last mode fastest).                                              *)
(***************************************************************************)
EXTENDS Integers, Sequences, FiniteSets, TLC, Json, IOUtils

\* an instance: per molecule a sequence of modes, per mode <<levels in the
\* electronic ground state, levels in the excited state>>
Instances ==
  << << << <<2, 2>> >> >>,                                   \* 1 molecule, 1 mode
     << << <<3, 2>> >> >>,
     << << <<2, 2>>, <<2, 3>> >> >>,                          \* 1 molecule, 2 modes
     << << <<2, 2>> >>, << <<2, 2>> >> >>,                    \* dimer, 1 mode each
     << << <<2, 3>> >>, << <<2, 2>>, <<3, 2>> >> >>,          \* dimer, 1 + 2 modes
     << << <<2, 2>> >>, << >>, << <<2, 2>> >> >>,             \* trimer, one bare
     << << <<14, 13>> >> >>,                                  \* many levels
     << << <<10, 9>> >>, << <<9, 10>> >> >> >>                \* many levels, dimer

CONSTANTS MaxMult

VARIABLES inst, mult
Init == inst \in 1 .. Len(Instances) /\ mult \in 1 .. MaxMult
Next == UNCHANGED <<inst, mult>>
Spec == Init /\ [][Next]_<<inst, mult>>

Agg == Instances[inst]
N == Len(Agg)
Mol == 1 .. N
\* flat list of modes <<mol, j>> in the order molecule by molecule
RECURSIVE FlatFrom(_, _)
FlatFrom(m, j) ==
  IF m > N THEN << >>
  ELSE IF j > Len(Agg[m]) THEN FlatFrom(m + 1, 1)
  ELSE << <<m, j>> >> \o FlatFrom(m, j + 1)
Flat == FlatFrom(1, 1)
NM == Len(Flat)

RECURSIVE SumF(_, _)
SumF(f, n) == IF n = 0 THEN 0 ELSE f[n] + SumF(f, n - 1)
ElSigs == {s \in [Mol -> {0, 1}] : SumF(s, N) <= mult}
\* electronic order as in FrenkelAggregate (ground, singles, doubles)
Single(i) == [k \in Mol |-> IF k = i THEN 1 ELSE 0]
Double(i, j) == [k \in Mol |-> IF k = i \/ k = j THEN 1 ELSE 0]
RECURSIVE DoublesFrom(_, _)
DoublesFrom(i, j) ==
  IF i > N THEN << >>
  ELSE IF j > N THEN DoublesFrom(i + 1, i + 2)
  ELSE <<Double(i, j)>> \o DoublesFrom(i, j + 1)
ElOrder == << [k \in Mol |-> 0] >> \o [i \in 1 .. N |-> Single(i)]
           \o (IF mult >= 2 THEN DoublesFrom(1, 2) ELSE << >>)

Levels(e, k) == Agg[Flat[k][1]][Flat[k][2]][e[Flat[k][1]] + 1]

\* numpy.ndindex over (Levels(e,1), ..., Levels(e,NM)): last index fastest
RECURSIVE NdIndex(_, _)
NdIndex(e, k) ==
  IF k > NM THEN << << >> >>
  ELSE LET rest == NdIndex(e, k + 1) IN
       LET F[v \in 0 .. Levels(e, k)] ==
             IF v = 0 THEN << >>
             ELSE F[v - 1] \o [i \in 1 .. Len(rest) |-> <<v - 1>> \o rest[i]]
       IN F[Levels(e, k)]

RECURSIVE Prod(_, _)
Prod(e, k) == IF k > NM THEN 1 ELSE Levels(e, k) * Prod(e, k + 1)

RECURSIVE AllFrom(_)
AllFrom(i) ==
  IF i > Len(ElOrder) THEN << >>
  ELSE LET e == ElOrder[i]  vs == NdIndex(e, 1)
       IN [j \in 1 .. Len(vs) |-> [el |-> e, vib |-> vs[j]]] \o AllFrom(i + 1)
AllStates == AllFrom(1)

Rng(s) == {s[i] : i \in DOMAIN s}

ProductOfLevelCounts ==
  \A i \in 1 .. Len(ElOrder) :
     LET e == ElOrder[i]  vs == NdIndex(e, 1) IN
     /\ Len(vs) = Prod(e, 1)
     /\ Cardinality(Rng(vs)) = Len(vs)                       \* no duplicates
     /\ Rng(vs) = {v \in [1 .. NM -> 0 .. 14] :
                     \A k \in 1 .. NM : v[k] < Levels(e, k)}  \* complete

TotalCount ==
  Len(AllStates) = SumF([i \in 1 .. Len(ElOrder) |-> Prod(ElOrder[i], 1)],
                        Len(ElOrder))

TableDir == IF "TABLE_DIR" \in DOMAIN IOEnv THEN IOEnv.TABLE_DIR ELSE ""
ExportTable ==
  TableDir # "" =>
    JsonSerialize(TableDir \o "/vib_" \o ToString(inst) \o "_" \o ToString(mult) \o ".json",
      [inst |-> inst, mult |-> mult, agg |-> Agg, flat |-> Flat,
       states |-> [i \in 1 .. Len(AllStates) |->
                     [el |-> [k \in 1 .. N |-> AllStates[i].el[k]],
                      vib |-> AllStates[i].vib]]])
=============================================================================
