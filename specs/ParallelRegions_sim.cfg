CONSTANTS
  MaxDepth = 4
  MaxOps = 10
  FinishDecrements = "always"
SPECIFICATION Spec
CONSTRAINT Bounded
INVARIANT LevelIsDepth
CHECK_DEADLOCK FALSE
