CONSTANTS
  Dim = 2
  LdMode = "transpose"
  DephMode = "conj"
  TransMode = "transpose"
SPECIFICATION Spec
INVARIANT TracePreserved
INVARIANT HermiticityPreserved
INVARIANT OperatorFormEqualsTensorForm
INVARIANT SecularClauses
INVARIANT TransformPreserves
INVARIANT TransformCovariant
INVARIANT DephaseOK
CHECK_DEADLOCK FALSE
