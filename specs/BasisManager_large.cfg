CONSTANTS
  Objs = {"h", "a", "b"}
  CtxOps = {"h", "a"}
  MaxDepth = 3
  MaxSteps = 12
  ExitPopsTrans = TRUE
SPECIFICATION Spec
CONSTRAINT Bounded
INVARIANT Bookkeeping
INVARIANT NoLostObject
INVARIANT RepMatchesTag
INVARIANT Restored
INVARIANT Frozen
PROPERTY Transparent
PROPERTY ExitRestoresBookkeeping
CHECK_DEADLOCK FALSE
