------------------------------- MODULE AxisGrid -------------------------------
(***************************************************************************)
(* Equidistant axes on an integer grid (core/valueaxis.py: ValueAxis.data, *)
(* max, locate, nearest, is_subset_of / is_superset_of -- the test that    *)
(* PopulationPropagator.get_PropagationMatrix and the evolution            *)
(* superoperators use to accept a coarser time axis).                      *)
(*                                                                         *)
(* The coded predicates are transcribed next to their definitions:         *)
(*   subset  : every point of the axis is a point of the other axis        *)
(*   nearest : an index that minimises the distance (upper one on a tie)   *)
(*   locate  : lower neighbour and remaining distance                      *)
(* All quantities are integers (half steps: values are given in units of   *)
(* half a grid unit so that midpoints are representable).                  *)
(***************************************************************************)
EXTENDS Integers, FiniteSets, Sequences, SequencesExt, TLC, Json, IOUtils

CONSTANTS StartSet, MaxLen, StepSet,
          CheckStep    \* TRUE: the code; FALSE: negative control (no step test)

StartsA == {-4, 0, 2}           \* (cfg files cannot contain negative literals)
StartsB == {-6, -2, 0, 2, 4, 8}

Axes == [start : StartSet, len : 1 .. MaxLen, step : StepSet]
Pt(a, i) == a.start + i * a.step
Data(a) == {Pt(a, i) : i \in 0 .. (a.len - 1)}
AMax(a) == Pt(a, a.len - 1)

(* ------------------------------ is_subset_of --------------------------- *)
\* Nst = round(self.step / axis.step); Nst * axis.step == self.step
\*   <=> axis.step divides self.step (the quotient is then >= 1)
Commensurate(s, a) == s.step % a.step = 0
CodedSubset(s, a) ==
  /\ (CheckStep => Commensurate(s, a))
  /\ s.start \in Data(a) /\ s.start < AMax(a)
  /\ AMax(s) \in Data(a)
DefSubset(s, a) == Data(s) \subseteq Data(a)

\* the code never accepts an axis that is not a subset
SubsetSound == \A s \in Axes, a \in Axes : CodedSubset(s, a) => DefSubset(s, a)
\* ... and accepts every subset with at least two points
SubsetComplete ==
  \A s \in Axes, a \in Axes : (DefSubset(s, a) /\ s.len >= 2) => CodedSubset(s, a)
\* named deviation: one-point axes are accepted only with a commensurate
\* step and away from the last point of the other axis
OnePointDeviation ==
  \A s \in Axes, a \in Axes : (s.len = 1 /\ DefSubset(s, a)) =>
     (CodedSubset(s, a) <=> (Commensurate(s, a) /\ s.start < AMax(a)))

(* --------------------------- locate / nearest -------------------------- *)
Floor(x, y) == x \div y                    \* TLA+ \div rounds down (y > 0)
Abs(x) == IF x < 0 THEN 0 - x ELSE x
Vals(a) == (a.start - 2 * a.step) .. (AMax(a) + 2 * a.step)

InBounds(a, v) == LET n == Floor(v - a.start, a.step) IN n >= 0 /\ n < a.len
Locate(a, v) == LET n == Floor(v - a.start, a.step) IN <<n, v - Pt(a, n)>>
Nearest(a, v) ==
  LET n == Floor(v - a.start, a.step)
      d1 == Abs(v - Pt(a, n))
      d2 == IF n + 1 < a.len THEN Abs(v - Pt(a, n + 1)) ELSE 5 * a.step
  IN  IF d1 < d2 THEN n ELSE IF n + 1 < a.len THEN n + 1 ELSE n

LocateCorrect ==
  \A a \in Axes : \A v \in Vals(a) : InBounds(a, v) =>
     LET r == Locate(a, v) IN
     /\ r[1] \in 0 .. (a.len - 1) /\ r[2] >= 0 /\ r[2] < a.step
     /\ Pt(a, r[1]) + r[2] = v
NearestCorrect ==
  \A a \in Axes : \A v \in Vals(a) : InBounds(a, v) =>
     LET k == Nearest(a, v) IN
     /\ k \in 0 .. (a.len - 1)
     /\ \A i \in 0 .. (a.len - 1) : Abs(v - Pt(a, k)) <= Abs(v - Pt(a, i))
     /\ \A i \in 0 .. (a.len - 1) :          \* on a tie the upper index
           Abs(v - Pt(a, i)) = Abs(v - Pt(a, k)) => i <= k
\* values are accepted exactly on [start, max + step)
BoundsAsDocumented ==
  \A a \in Axes : \A v \in Vals(a) :
     InBounds(a, v) <=> (v >= a.start /\ v < AMax(a) + a.step)

(* ------------------------------ table ---------------------------------- *)
PairRows ==
  LET AS == SetToSeq(Axes) IN
  [i \in 1 .. Len(AS) |->
     [axis |-> AS[i],
      subset_of |-> [j \in 1 .. Len(AS) |-> CodedSubset(AS[i], AS[j])],
      probes |-> [v \in Vals(AS[i]) |->
                     IF InBounds(AS[i], v)
                       THEN [ok |-> TRUE, locate |-> Locate(AS[i], v),
                             nearest |-> Nearest(AS[i], v)]
                       ELSE [ok |-> FALSE, locate |-> <<0, 0>>, nearest |-> 0]]]]
TableFile == IF "TABLE_FILE" \in DOMAIN IOEnv THEN IOEnv.TABLE_FILE ELSE ""
ASSUME TableFile = "" \/ JsonSerialize(TableFile, [rows |-> PairRows])

VARIABLE dummy
Init == dummy = 0
Next == UNCHANGED dummy
\* (state-level wrappers so that TLC names the one that fails)
ISubsetSound == dummy = 0 /\ SubsetSound
ISubsetComplete == dummy = 0 /\ SubsetComplete
IOnePoint == dummy = 0 /\ OnePointDeviation
ILocate == dummy = 0 /\ LocateCorrect
INearest == dummy = 0 /\ NearestCorrect
IBounds == dummy = 0 /\ BoundsAsDocumented
=============================================================================
