CONSTANTS
  MaxSize = 4
  StartSet <- StartsSmall
  MaxLen = 6
  MaxLoops = 2
  TableFile = ""
  HonourStart = FALSE
SPECIFICATION Spec
INVARIANT TypeOK
INVARIANT NoDoubleWork
INVARIANT ReducedEqualsSerial
INVARIANT PartitionHere
PROPERTY Terminates
CHECK_DEADLOCK FALSE
