---------------------------- MODULE TDIndexProof ----------------------------
(* Unbounded (TLAPS): the walk of the time index of a time-dependent        *)
(* relaxation tensor during propagation never reads outside the tensor and  *)
(* always reads the slice at the state time plus one bath step -- for EVERY *)
(* length of the propagation axis, refinement, stride and tensor length     *)
(* with the propagation axis inside the bath axis.  Same machine as         *)
(* TDIndex.tla with the configuration as constants.                         *)
EXTENDS Integers, TLAPS, TDIndexOps

CONSTANTS ntprop, nref, stride, ntens
ASSUME Params ==
  /\ ntprop \in Nat /\ nref \in Nat /\ stride \in Nat /\ ntens \in Nat
  /\ ntprop >= 2 /\ nref >= 1 /\ stride >= 1 /\ ntens >= 2
  /\ FitsIn(ntprop, nref, stride, ntens)

cut == ntens
Total == TotalSteps(ntprop, nref)

VARIABLES k, indxR, lastRead
vars == <<k, indxR, lastRead>>

Init == k = 0 /\ indxR = 1 /\ lastRead = -1
Read ==
  /\ k < Total
  /\ lastRead' = indxR
  /\ indxR' = NextIndex(indxR, stride, cut)
  /\ k' = k + 1
Next == Read
Spec == Init /\ [][Next]_vars

ReadInRange == lastRead = -1 \/ (0 <= lastRead /\ lastRead < ntens)
SampleNearStateTime ==
  lastRead = -1 \/ lastRead = (k - 1) * stride + 1

Inv ==
  /\ k \in Nat /\ k <= Total
  /\ indxR = 1 + k * stride
  /\ (lastRead = -1 \/ (k >= 1 /\ lastRead = 1 + (k - 1) * stride))

LEMMA Mono == \A a \in Nat, b \in Nat, c \in Nat : a <= b => a * c <= b * c
  OBVIOUS
LEMMA Dist == \A a \in Nat, c \in Nat : (a + 1) * c = a * c + c
  OBVIOUS
LEMMA TotalNat == Total \in Nat /\ Total * stride <= ntens - 1
  BY Params DEF Total, TotalSteps, FitsIn

THEOREM InvInductive == Spec => []Inv
<1>1. Init => Inv
  BY Params, TotalNat DEF Init, Inv
<1>2. Inv /\ [Next]_vars => Inv'
  <2> SUFFICES ASSUME Inv, [Next]_vars PROVE Inv'
    OBVIOUS
  <2>1. CASE Read
    <3>1. k \in Nat /\ k + 1 <= Total /\ stride \in Nat /\ Total \in Nat
      BY <2>1, Params, TotalNat DEF Read, Inv
    <3>2. (k + 1) * stride <= Total * stride
      BY <3>1, Mono
    <3>3. (k + 1) * stride = k * stride + stride
      BY <3>1, Dist
    <3>4. k * stride \in Nat
      BY <3>1
    <3>5. indxR + stride <= ntens
      BY <3>2, <3>3, <3>4, TotalNat, Params DEF Inv
    <3>6. indxR' = indxR + stride
      BY <2>1, <3>5, <3>1, <3>4, Params DEF Read, cut, Inv, NextIndex
    <3>7. QED
      BY <2>1, <3>1, <3>3, <3>4, <3>6 DEF Read, Inv
  <2>2. CASE UNCHANGED vars
    BY <2>2 DEF vars, Inv
  <2>3. QED
    BY <2>1, <2>2 DEF Next
<1>3. QED
  BY <1>1, <1>2, PTL DEF Spec

THEOREM InRange == Inv => ReadInRange /\ SampleNearStateTime
<1> SUFFICES ASSUME Inv PROVE ReadInRange /\ SampleNearStateTime
  OBVIOUS
<1>1. CASE lastRead = -1
  BY <1>1 DEF ReadInRange, SampleNearStateTime
<1>2. CASE k >= 1 /\ lastRead = 1 + (k - 1) * stride
  <2>1. k \in Nat /\ k <= Total /\ stride \in Nat /\ Total \in Nat /\ k - 1 \in Nat
    BY <1>2, Params, TotalNat DEF Inv
  <2>2. (k - 1) * stride \in Nat
    BY <2>1
  <2>3. ((k - 1) + 1) * stride = (k - 1) * stride + stride
    BY <2>1, Dist
  <2>4. k * stride <= Total * stride
    BY <2>1, Mono
  <2>5. 1 + (k - 1) * stride <= ntens - 1
    BY <2>1, <2>2, <2>3, <2>4, TotalNat, Params
  <2>6. lastRead \in Nat /\ lastRead < ntens
    BY <1>2, <2>2, <2>5, Params
  <2>7. lastRead = (k - 1) * stride + 1
    BY <1>2, <2>2
  <2> QED
    BY <2>6, <2>7 DEF ReadInRange, SampleNearStateTime
<1> QED
  BY <1>1, <1>2 DEF Inv
=============================================================================
