CONSTANTS
  Energies = {0}
  KTs = {1}
  U = 745
  NLev = 5
  Shift = "min"
  ZeroT = "lowest"
  Create = "incontext"
SPECIFICATION TraceSpec
INVARIANT ObsFinite
INVARIANT ObsZeroPattern
INVARIANT ObsOrder
INVARIANT ObsZeroT
INVARIANT ObsSameState
INVARIANT ObsRegime
CHECK_DEADLOCK FALSE
