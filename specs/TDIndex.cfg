CONSTANTS
  MaxNtProp = 6
  MaxNref = 3
  MaxStride = 3
  MaxNtBath = 14
SPECIFICATION Spec
INVARIANT ReadInRange
INVARIANT SampleNearStateTime
CHECK_DEADLOCK FALSE
