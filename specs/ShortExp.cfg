CONSTANTS
  Orders = {2, 4, 6}
  MaxDen = 100000000
SPECIFICATION Spec
INVARIANT TraceExact
INVARIANT HermitianExact
INVARIANT RunningHermitian
INVARIANT ExportTable
CHECK_DEADLOCK FALSE
