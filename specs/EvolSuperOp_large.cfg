CONSTANTS
  Nt = 5
  MaxDense = 3
  MaxSteps = 8
SPECIFICATION Spec
CONSTRAINT Bounded
INVARIANT IdentityAtZero
INVARIANT StepByStepIsPower
INVARIANT Semigroup
PROPERTY RefusalChangesNothing
CHECK_DEADLOCK FALSE
