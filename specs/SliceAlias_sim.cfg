CONSTANTS
  MaxDepth = 2
  MaxObjs = 3
  MaxSteps = 12
  AtCopies = TRUE
SPECIFICATION Spec
CONSTRAINT Bounded
CHECK_DEADLOCK FALSE
