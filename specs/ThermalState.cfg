CONSTANTS
  Energies = {0, 3, 40, 41, 60}
  KTs = {1, 2, 7}
  U = 10
  NLev = 3
  Shift = "min"
  ZeroT = "lowest"
  Create = "incontext"
SPECIFICATION Spec
INVARIANT Finite
INVARIANT Ratios
INVARIANT UnderflowOnlyWhenNegligible
INVARIANT ZeroTemperatureIsLimit
INVARIANT SamePhysicalState
CHECK_DEADLOCK FALSE
