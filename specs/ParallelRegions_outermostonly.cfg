CONSTANTS
  MaxDepth = 4
  MaxOps = 8
  FinishDecrements = "outermost-only"
SPECIFICATION Spec
CONSTRAINT Bounded
INVARIANT LevelIsDepth
INVARIANT LoopsConsistent
CHECK_DEADLOCK FALSE
