---------------------------- MODULE TwoDStorage ----------------------------
(***************************************************************************)
(* Storage of partial two-dimensional signals in a TwoDResponse            *)
(* (quantarhei/spectroscopy/twod2.py: TwoDSpectrumBase._add_data,          *)
(* set_resolution/_convert_resolution/_convert_res_elementary, the         *)
(* resolution-dependent getter and setter of `d__data`).                   *)
(*                                                                         *)
(* Data arrays are modelled by integers (the replay uses 1x1 arrays), so   *)
(* "the view equals the sum of everything added" is integer equality.      *)
(* One action per public call.  A refused call is an action that leaves    *)
(* the stored data unchanged (it may still initialise the storage and set  *)
(* the flag, exactly as the code does).                                    *)
(***************************************************************************)
EXTENDS Integers, Sequences, FiniteSets, TLC

CONSTANTS AddTypes,     \* pathway types used in additions (subset of Types)
          Tags,         \* pathway tags used in additions
          Values,       \* values (weights) that may be added
          MaxOps,       \* bound on the history length
          TypesIntoPathways
             \* how a types-level addition into pathways-resolution storage
             \* accumulates: "stored" - into the untagged entry only (the code
             \* as it is); "view" - reads the aggregated view of the type and
             \* writes it back under the untagged key (the defect repaired in
             \* /repo; kept as negative control of the model)

Types  == {"R1g", "R2g", "R3g", "R4g", "R1fs", "R2fs", "R3fs", "R4fs"}
Procs  == {"GSB", "SE", "ESA", "DC"}
Sigs   == {"REPH", "NONR", "DCS"}
NoTag  == "none"
TagsN  == Tags \cup {NoTag}

ProcOf == [p \in Procs |->
             CASE p = "GSB" -> {"R1g", "R2g"}  [] p = "SE" -> {"R3g", "R4g"}
               [] p = "ESA" -> {"R1fs", "R2fs"} [] p = "DC" -> {"R3fs", "R4fs"}]
SigOf  == [s \in Sigs |->
             CASE s = "REPH" -> {"R2g", "R3g", "R1fs"}
               [] s = "NONR" -> {"R1g", "R4g", "R2fs"}
               [] s = "DCS"  -> {"R3fs", "R4fs"}]

\* storage resolutions: 4 pathways, 3 types, 2 processes, 1 signals, 0 off
Levels == 0 .. 4

\* _conversion_paths of _convert_resolution
ConvPath(old, new) ==
  CASE old = 4 /\ new = 3 -> <<3>>       [] old = 4 /\ new = 2 -> <<3, 2>>
    [] old = 4 /\ new = 1 -> <<3, 1>>    [] old = 4 /\ new = 0 -> <<3, 2, 0>>
    [] old = 3 /\ new = 2 -> <<2>>       [] old = 3 /\ new = 1 -> <<1>>
    [] old = 3 /\ new = 0 -> <<2, 0>>    [] old = 2 /\ new = 0 -> <<0>>
    [] old = 1 /\ new = 0 -> <<0>>       [] OTHER -> <<-1>>   \* refused

RECURSIVE SumOver(_, _)
SumOver(S, f) == IF S = {} THEN 0
                 ELSE LET x == CHOOSE y \in S : TRUE
                      IN  f[x] + SumOver(S \ {x}, f)

VARIABLES
  res,        \* storage_resolution
  init,       \* storage_initialized
  sPath, pPath,   \* res 4: [Types \X TagsN -> Int], present keys
  sType, pType,   \* res 3
  sProc, pProc,   \* res 2
  sSig,  pSig,    \* res 1
  sTot,  pTot,    \* res 0 (pTot \in BOOLEAN)
  \* ghost ledger of everything accepted
  ledPath, ledT, ledP, ledS, ledTot,
  nops, last      \* history length; "ok" | "refused" | "init"

store == <<sPath, pPath, sType, pType, sProc, pProc, sSig, pSig, sTot, pTot>>
ledger == <<ledPath, ledT, ledP, ledS, ledTot>>
vars == <<res, init, store, ledger, nops, last>>

ZeroPath == [k \in Types \X TagsN |-> 0]
ZeroT == [t \in Types |-> 0]
ZeroP == [p \in Procs |-> 0]
ZeroS == [s \in Sigs |-> 0]

EmptyStore ==
  /\ sPath' = ZeroPath /\ pPath' = {}
  /\ sType' = ZeroT /\ pType' = {}
  /\ sProc' = ZeroP /\ pProc' = {}
  /\ sSig' = ZeroS /\ pSig' = {}
  /\ sTot' = 0 /\ pTot' = FALSE

Init ==
  /\ res = 4 /\ init = FALSE
  /\ sPath = ZeroPath /\ pPath = {}
  /\ sType = ZeroT /\ pType = {}
  /\ sProc = ZeroP /\ pProc = {}
  /\ sSig = ZeroS /\ pSig = {}
  /\ sTot = 0 /\ pTot = FALSE
  /\ ledPath = ZeroPath /\ ledT = ZeroT /\ ledP = ZeroP /\ ledS = ZeroS
  /\ ledTot = 0
  /\ nops = 0 /\ last = "init"

(* ----------------------------- views (getter) -------------------------- *)
TagsOf(t) == {g \in TagsN : <<t, g>> \in pPath}
TypeViewAt(r, t) ==
  IF r = 4 THEN SumOver({<<t, g>> : g \in TagsOf(t)}, sPath)
  ELSE IF t \in pType THEN sType[t] ELSE 0
TypeView(t) == TypeViewAt(res, t)

ProcView(p) ==
  IF res >= 3 THEN SumOver(ProcOf[p], [t \in Types |-> TypeView(t)])
  ELSE IF p \in pProc THEN sProc[p] ELSE 0          \* res = 2

SigView(s) ==
  IF res >= 3 THEN SumOver(SigOf[s], [t \in Types |-> TypeView(t)])
  ELSE IF s \in pSig THEN sSig[s] ELSE 0            \* res = 1

TotalView ==
  CASE res >= 3 -> SumOver(Types, [t \in Types |-> TypeView(t)])
    [] res = 2  -> SumOver(pProc, sProc)
    [] res = 1  -> SumOver(pSig, sSig)
    [] res = 0  -> IF pTot THEN sTot ELSE 0

(* ------------------------------- _add_data ----------------------------- *)
\* effective storage resolution seen by the branches of _add_data: an
\* uninitialised storage adopts the resolution of the first addition
EffRes(level) == IF init THEN res ELSE level
\* what is stored when the call starts (an uninitialised storage is reset)
Fresh == ~init

Accept(level, dtype, tag, x) ==
  \* TRUE iff the call stores something
  LET r == EffRes(level) IN
  /\ level <= r
  /\ CASE level = 4 -> /\ r = 4 /\ dtype \in Types /\ tag # NoTag
                       /\ (Fresh \/ <<dtype, tag>> \notin pPath)
       [] level = 3 -> /\ dtype \in Types /\ tag = NoTag
                       /\ r \in {3, 4}
                       /\ (r = 4 /\ TypesIntoPathways = "view" /\ ~Fresh)
                             => <<dtype, NoTag>> \notin pPath
       [] level = 2 -> dtype \in Procs /\ tag = NoTag /\ r = 2
       [] level = 1 -> dtype \in Sigs /\ tag = NoTag /\ r = 1
       [] level = 0 -> dtype = "total" /\ tag = NoTag /\ r = 0

AddAccepted(level, dtype, tag, x) ==
  LET r == EffRes(level)
      P == IF Fresh THEN {} ELSE pPath
      SP == IF Fresh THEN ZeroPath ELSE sPath
  IN
  /\ Accept(level, dtype, tag, x)
  /\ init' = TRUE /\ res' = r
  /\ CASE level = 4 ->
            /\ sPath' = [SP EXCEPT ![<<dtype, tag>>] = x]
            /\ pPath' = P \cup {<<dtype, tag>>}
            /\ sType' = ZeroT /\ pType' = {} /\ sProc' = ZeroP /\ pProc' = {}
            /\ sSig' = ZeroS /\ pSig' = {} /\ sTot' = 0 /\ pTot' = FALSE
            /\ ledPath' = [ledPath EXCEPT ![<<dtype, tag>>] = @ + x]
            /\ ledT' = [ledT EXCEPT ![dtype] = @ + x]
            /\ UNCHANGED <<ledP, ledS, ledTot>>
       [] level = 3 /\ r = 4 ->
            LET old == IF TypesIntoPathways = "stored"
                         THEN (IF <<dtype, NoTag>> \in P THEN SP[<<dtype, NoTag>>] ELSE 0)
                         ELSE SumOver({<<dtype, g>> : g \in {h \in TagsN : <<dtype, h>> \in P}}, SP)
            IN
            /\ sPath' = [SP EXCEPT ![<<dtype, NoTag>>] = old + x]
            /\ pPath' = P \cup {<<dtype, NoTag>>}
            /\ sType' = ZeroT /\ pType' = {} /\ sProc' = ZeroP /\ pProc' = {}
            /\ sSig' = ZeroS /\ pSig' = {} /\ sTot' = 0 /\ pTot' = FALSE
            /\ ledPath' = [ledPath EXCEPT ![<<dtype, NoTag>>] = @ + x]
            /\ ledT' = [ledT EXCEPT ![dtype] = @ + x]
            /\ UNCHANGED <<ledP, ledS, ledTot>>
       [] level = 3 /\ r = 3 ->
            /\ sType' = [(IF Fresh THEN ZeroT ELSE sType) EXCEPT ![dtype] = @ + x]
            /\ pType' = (IF Fresh THEN {} ELSE pType) \cup {dtype}
            /\ sPath' = ZeroPath /\ pPath' = {} /\ sProc' = ZeroP /\ pProc' = {}
            /\ sSig' = ZeroS /\ pSig' = {} /\ sTot' = 0 /\ pTot' = FALSE
            /\ ledT' = [ledT EXCEPT ![dtype] = @ + x]
            /\ UNCHANGED <<ledPath, ledP, ledS, ledTot>>
       [] level = 2 ->
            /\ sProc' = [(IF Fresh THEN ZeroP ELSE sProc) EXCEPT ![dtype] = @ + x]
            /\ pProc' = (IF Fresh THEN {} ELSE pProc) \cup {dtype}
            /\ sPath' = ZeroPath /\ pPath' = {} /\ sType' = ZeroT /\ pType' = {}
            /\ sSig' = ZeroS /\ pSig' = {} /\ sTot' = 0 /\ pTot' = FALSE
            /\ ledP' = [ledP EXCEPT ![dtype] = @ + x]
            /\ UNCHANGED <<ledPath, ledT, ledS, ledTot>>
       [] level = 1 ->
            /\ sSig' = [(IF Fresh THEN ZeroS ELSE sSig) EXCEPT ![dtype] = @ + x]
            /\ pSig' = (IF Fresh THEN {} ELSE pSig) \cup {dtype}
            /\ sPath' = ZeroPath /\ pPath' = {} /\ sType' = ZeroT /\ pType' = {}
            /\ sProc' = ZeroP /\ pProc' = {} /\ sTot' = 0 /\ pTot' = FALSE
            /\ ledS' = [ledS EXCEPT ![dtype] = @ + x]
            /\ UNCHANGED <<ledPath, ledT, ledP, ledTot>>
       [] level = 0 ->
            /\ sTot' = (IF Fresh THEN 0 ELSE sTot) + x /\ pTot' = TRUE
            /\ sPath' = ZeroPath /\ pPath' = {} /\ sType' = ZeroT /\ pType' = {}
            /\ sProc' = ZeroP /\ pProc' = {} /\ sSig' = ZeroS /\ pSig' = {}
            /\ ledTot' = ledTot + x
            /\ UNCHANGED <<ledPath, ledT, ledP, ledS>>
  /\ nops' = nops + 1 /\ last' = "ok"

AddRefused(level, dtype, tag, x) ==
  /\ ~Accept(level, dtype, tag, x)
  \* the resolution test of _add_data comes after the initialisation
  /\ IF init THEN UNCHANGED <<res, init, store>>
     ELSE /\ init' = TRUE /\ res' = level /\ EmptyStore
  /\ UNCHANGED ledger
  /\ nops' = nops + 1 /\ last' = "refused"

AddDtypes == AddTypes \cup Procs \cup Sigs \cup {"total"}

Add(level, dtype, tag, x) ==
  AddAccepted(level, dtype, tag, x) \/ AddRefused(level, dtype, tag, x)

(* ----------------------------- set_resolution -------------------------- *)
\* one elementary conversion of _convert_res_elementary on explicit state
Conv43(SP, P) == [t \in Types |->
                    SumOver({<<t, g>> : g \in {h \in TagsN : <<t, h>> \in P}}, SP)]
Conv32(ST, PT) == [p \in Procs |-> SumOver(ProcOf[p] \cap PT, ST)]
Conv31(ST, PT) == [s \in Sigs |-> SumOver(SigOf[s] \cap PT, ST)]

SetResolution(new) ==
  /\ nops' = nops + 1
  /\ UNCHANGED ledger
  /\ IF new > res \/ (new < res /\ ConvPath(res, new) = <<-1>>)
       THEN /\ last' = "refused" /\ UNCHANGED <<res, init, store>>
     ELSE IF new = res
       THEN /\ last' = "ok" /\ UNCHANGED <<res, init, store>>
     ELSE IF ~init
       \* nothing stored yet: only the resolution changes (the placeholder
       \* arrays the code creates are discarded by the first addition)
       THEN /\ last' = "ok" /\ res' = new /\ UNCHANGED <<init, store>>
     ELSE
       LET path == ConvPath(res, new)
           \* types-level image of the current storage (when res >= 3)
           T3 == IF res = 4 THEN Conv43(sPath, pPath) ELSE sType
           PT3 == IF res = 4 THEN Types ELSE pType
           viaP == (2 \in {path[i] : i \in 1 .. Len(path)}) \/ res = 2
           P2 == IF res = 2 THEN sProc ELSE Conv32(T3, PT3)
           PP2 == IF res = 2 THEN pProc ELSE Procs
           S1 == IF res = 1 THEN sSig ELSE Conv31(T3, PT3)
           PS1 == IF res = 1 THEN pSig ELSE Sigs
       IN
       /\ last' = "ok" /\ res' = new /\ UNCHANGED init
       /\ sPath' = ZeroPath /\ pPath' = {}
       /\ IF new = 3 THEN sType' = T3 /\ pType' = PT3
                     ELSE sType' = ZeroT /\ pType' = {}
       /\ IF new = 2 THEN sProc' = P2 /\ pProc' = PP2
                     ELSE sProc' = ZeroP /\ pProc' = {}
       /\ IF new = 1 THEN sSig' = S1 /\ pSig' = PS1
                     ELSE sSig' = ZeroS /\ pSig' = {}
       /\ IF new = 0
            THEN /\ pTot' = TRUE
                 /\ sTot' = IF viaP THEN SumOver(PP2, P2) ELSE SumOver(PS1, S1)
            ELSE sTot' = 0 /\ pTot' = FALSE

AddAny == \E level \in Levels, dtype \in AddDtypes, tag \in TagsN, x \in Values :
             Add(level, dtype, tag, x)
SetResAny == \E new \in Levels : SetResolution(new)

Next == AddAny \/ SetResAny

Spec == Init /\ [][Next]_vars

Bounded == nops < MaxOps

(* ------------------------------- properties ---------------------------- *)
LedgerTotal == SumOver(Types, ledT) + SumOver(Procs, ledP)
               + SumOver(Sigs, ledS) + ledTot

TotalConserved == init => TotalView = LedgerTotal

TypeViewsConserved ==
  (init /\ res >= 3) => \A t \in Types : TypeView(t) = ledT[t]

PathwayViewsConserved ==
  (init /\ res = 4) => \A k \in Types \X TagsN :
       (IF k \in pPath THEN sPath[k] ELSE 0) = ledPath[k]

ProcViewsConserved ==
  (init /\ res >= 2) => \A p \in Procs :
       ProcView(p) = SumOver(ProcOf[p], ledT) + ledP[p]

SigViewsConserved ==
  (init /\ res \in {1, 3, 4}) => \A s \in Sigs :
       SigView(s) = SumOver(SigOf[s], ledT) + ledS[s]

\* only the active level holds data
OneLevel ==
  /\ res # 4 => pPath = {}
  /\ res # 3 => pType = {}
  /\ res # 2 => pProc = {}
  /\ res # 1 => pSig = {}
  /\ res # 0 => ~pTot

RefusalKeepsData ==
  [][last' = "refused" =>
        /\ ledger' = ledger
        /\ (init => (store' = store /\ res' = res))]_vars
=============================================================================
