-------------------------------- MODULE AbsMap --------------------------------
(***************************************************************************)
(* Index pipeline of the absorption-spectrum calculators                   *)
(* (spectroscopy/abscalculator.py one_transition_spectrum and              *)
(* _calculate_abs_from_dynamics):                                          *)
(*     ft = hfft(at [, n]) ; ft = fftshift(ft) ; ft = flipud(ft) [; roll]  *)
(*     data = ft[Nt//2 : Nt + Nt//2]                                       *)
(* together with the frequency axis that is returned with the data         *)
(*     frequencyAxis = TimeAxis.get_FrequencyAxis()      (2 Nt points)     *)
(*     axis = FrequencyAxis(frequencyAxis.data[Nt//2], Nt, step).          *)
(* For a pure tone with kappa cycles per M samples (M = length of the hfft *)
(* output) the spec computes the returned index p at which the line lands  *)
(* and compares the frequency the returned axis assigns to p with the      *)
(* frequency of the tone.                                                  *)
(***************************************************************************)
EXTENDS Integers, TLC

CONSTANTS MinNt, MaxNt,
          Pipeline     \* "n=2Nt,roll": hfft(at, n=2 Nt), reversal that keeps
                       \*   index 0 (the code after the repair in /repo);
                       \* "default,flip": hfft(at) (2 Nt - 2 points), flipud
                       \*   (negative control: every line displaced by 2+ points)

VARIABLES nt, kappa
vars == <<nt, kappa>>

M(n) == IF Pipeline = "n=2Nt,roll" THEN 2 * n ELSE 2 * n - 2

Init == /\ nt \in MinNt .. MaxNt
        /\ kappa \in (0 - (nt \div 2) + 2) .. ((nt \div 2) - 3)   \* inside the window
Next == UNCHANGED vars
Spec == Init /\ [][Next]_vars

\* hfft computes sum_m a(m) w^(-m k): a tone a(m) = w^(-kappa m) ... the line
\* of a(t) = exp(-i om t) has to appear at +om: peak of hfft at k = -kappa
HfftPeak == (0 - kappa) % M(nt)
Shifted == (HfftPeak + (M(nt) \div 2)) % M(nt)             \* fftshift
Flipped == M(nt) - 1 - Shifted                             \* flipud
Reversed == IF Pipeline = "n=2Nt,roll" THEN (Flipped + 1) % M(nt) ELSE Flipped
Landing == Reversed - (nt \div 2)                          \* cut [Nt//2 : ...]

InWindow == Landing >= 0 /\ Landing < nt

\* frequency index (in units of the step of the 2 Nt point axis) that the
\* returned axis assigns to the returned sample p
AxisIndex(p) == p + (nt \div 2) - nt

\* tone: kappa / M cycles per sample; axis: AxisIndex / (2 Nt) cycles per sample
\* "the line sits at its transition energy to within the grid resolution":
\*  | kappa/M - idx/(2 Nt) | <= 1/2 * 1/(2 Nt)
LineOnItsEnergy ==
  InWindow =>
    LET d == kappa * (2 * nt) - AxisIndex(Landing) * M(nt)
    IN  2 * (IF d < 0 THEN 0 - d ELSE d) <= M(nt)

\* with the repaired pipeline the tone is exactly on the grid
ExactOnGrid ==
  (Pipeline = "n=2Nt,roll" /\ InWindow) => AxisIndex(Landing) = kappa
=============================================================================
