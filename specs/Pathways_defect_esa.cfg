CONSTANTS
  Variant = "esa-side"
  MaxNE = 2
  TransferModes = {"identity", "population", "coherence", "all"}
SPECIFICATION Spec
INVARIANT Sound
CHECK_DEADLOCK FALSE
