----------------------------- MODULE ThermalState -----------------------------
(***************************************************************************)
(* Boltzmann populations as the builders compute them                      *)
(* (builders/aggregate_base.py _thermal_population, get_DensityMatrix;     *)
(* builders/opensystem.py get_thermal_ReducedDensityMatrix) in a toy       *)
(* floating-point model with an explicit underflow threshold:              *)
(*   weight(x) = "exp(-x)" for 0 <= x <= U, and 0 for x > U  (x = dE/kT).  *)
(* A weight is represented by its exponent x (a natural number) or by Zero.*)
(* The model also covers the T = 0 branch and in which basis the returned  *)
(* object is tagged.                                                       *)
(***************************************************************************)
EXTENDS Integers, Sequences, FiniteSets, TLC

CONSTANTS Energies,     \* candidate level energies (integers, in units of kT grid)
          KTs,          \* candidate kT > 0
          U,            \* underflow threshold of exp(-x)
          NLev,         \* number of levels
          Shift,        \* "min": energies are taken relative to the lowest one
                        \*   (the code, after the repair); "none": as they are
                        \*   (negative control)
          ZeroT,        \* "lowest": T = 0 populates the lowest level (the code,
                        \*   after the repair); "first": the first level
          Create        \* "incontext": a state defined in the exciton basis is
                        \*   created inside the eigenbasis context (the code,
                        \*   after the repair); "outside": wrapped as is

Zero == -1
Lev == 1 .. NLev

VARIABLES e, kT, reqDepth     \* level energies, temperature (0 = T is zero),
                              \* basis depth at which the state is requested
vars == <<e, kT, reqDepth>>

Init == /\ e \in [Lev -> Energies]
        /\ kT \in KTs \cup {0}
        /\ reqDepth \in {0, 1}
Next == UNCHANGED vars
Spec == Init /\ [][Next]_vars

Min(f) == CHOOSE m \in {f[i] : i \in Lev} : \A i \in Lev : m <= f[i]
ArgMinFirst(f) == CHOOSE i \in Lev : f[i] = Min(f) /\ \A j \in Lev : f[j] = Min(f) => i <= j

Ref == IF Shift = "min" THEN Min(e) ELSE 0
\* exponent of the weight of level i, or Zero when exp underflows
X(i) == LET x == (e[i] - Ref) \div kT IN IF x > U THEN Zero ELSE x
AllZero == \A i \in Lev : X(i) = Zero

\* populations at T > 0 are w_i / sum w : defined iff some weight is non-zero
Finite == kT > 0 => ~AllZero
\* ratio of populations of two levels with non-zero weight = exp(-(ea-eb)/kT)
\* (on the integer grid: the difference of the exponents)
Ratios ==
  kT > 0 => \A a, b \in Lev :
     (X(a) # Zero /\ X(b) # Zero) => X(a) - X(b) = ((e[a] - Ref) \div kT) - ((e[b] - Ref) \div kT)
\* a level whose weight underflows while another does not has population 0,
\* which is the correctly rounded value: it must lie above by more than U kT
UnderflowOnlyWhenNegligible ==
  (kT > 0 /\ Shift = "min") =>
     \A a \in Lev : X(a) = Zero => (e[a] - Min(e)) \div kT > U

\* T = 0: all population on the lowest level (the T -> 0+ limit)
ZeroTLevel == IF ZeroT = "lowest" THEN ArgMinFirst(e) ELSE 1
ZeroTemperatureIsLimit == kT = 0 => e[ZeroTLevel] = Min(e)

\* basis bookkeeping of a state DEFINED in the exciton basis: its data are in
\* the exciton representation; its tag is the basis current at creation
TagOfExcitonState == IF Create = "incontext" THEN reqDepth + 1 ELSE reqDepth
\* (depth reqDepth + 1 is the eigenbasis context opened by the builder)
SamePhysicalState ==
  \* the data are exciton populations, so the tag must name an exciton basis
  TagOfExcitonState >= 1

Regime ==
  IF kT = 0 THEN "zero"
  ELSE IF \A i \in Lev : (e[i] - Min(e)) \div kT <= U THEN
         (IF Min(e) \div kT > U THEN "all-underflow-without-shift" ELSE "plain")
  ELSE (IF Min(e) \div kT > U THEN "partial+all-without-shift" ELSE "partial")
=============================================================================
