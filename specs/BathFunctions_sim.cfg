CONSTANTS
  Comps = {"a1", "b1", "h1", "a2", "v1", "c1"}
  MaxObjs = 4
  MaxLen = 4
  MaxSteps = 8
  Dispatch = "own"
  CheckFirst = TRUE
SPECIFICATION Spec
CONSTRAINT Bounded
INVARIANT DataIsSumOfComponents
CHECK_DEADLOCK FALSE
