CONSTANTS
  Variant = "code"
  MaxNE = 3
  TransferModes = {"identity"}
  NSites = 3
  Comp <- CompPos
INIT UInit
NEXT UNext
INVARIANT CrossPeaksCancel
INVARIANT DiagonalIsMonomer
INVARIANT NonVacuous
CHECK_DEADLOCK FALSE
