CONSTANTS
  AddTypes = {"R1g", "R2g", "R3g", "R1fs"}
  Tags = {"a", "b"}
  Values = {1, 3}
  MaxOps = 8
  TypesIntoPathways = "stored"
SPECIFICATION Spec
CONSTRAINT Bounded
INVARIANT TotalConserved
CHECK_DEADLOCK FALSE
