CONSTANTS
  AddTypes = {"R1g", "R2g", "R3g"}
  Tags = {"a", "b"}
  Values = {1}
  MaxOps = 5
  TypesIntoPathways = "stored"
SPECIFICATION Spec
CONSTRAINT Bounded
INVARIANT TotalConserved
INVARIANT TypeViewsConserved
INVARIANT PathwayViewsConserved
INVARIANT ProcViewsConserved
INVARIANT SigViewsConserved
INVARIANT OneLevel
PROPERTY RefusalKeepsData
CHECK_DEADLOCK FALSE
