---------------------------- MODULE Orientational ----------------------------
(***************************************************************************)
(* Orientational prefactor of a third-order Liouville pathway              *)
(* (spectroscopy/labsetup.py set_pulse_polarizations: F4e, M4;             *)
(* spectroscopy/diagramatics.py build / orientational_averaging: F4n).     *)
(*                                                                         *)
(*   Pref(e1..e4, d1..d4) = F4e . M4 . F4n                                 *)
(* is compared with the exact isotropic average of prod_k (e_k . R d_k).   *)
(* The 60 rotations of the icosahedral group form a 5-design on SO(3) and  *)
(* the integrand is a polynomial of degree 4 in R, so the group average IS *)
(* the exact orientational average.  Arithmetic is exact in (1/2) Z[phi].  *)
(* Both sides are multilinear in the eight vectors, so equality on all 3^8 *)
(* tuples of Cartesian basis vectors is equality for all real vectors.     *)
(***************************************************************************)
EXTENDS Integers, Sequences, FiniteSets, TLC, Icosahedral

CONSTANTS M4Diag      \* 4: the code; another value: negative control

Axes == 1 .. 3
G == IcoGroup

(* ------------------------------ Z[phi] --------------------------------- *)
Pmul(x, y) == <<x[1] * y[1] + x[2] * y[2], x[1] * y[2] + x[2] * y[1] + x[2] * y[2]>>
Padd(x, y) == <<x[1] + y[1], x[2] + y[2]>>

(* --------------------------- group validation -------------------------- *)
Dot(g, i, j) == Padd(Padd(Pmul(g[i][1], g[j][1]), Pmul(g[i][2], g[j][2])),
                     Pmul(g[i][3], g[j][3]))
Orthogonal(g) == \A i, j \in Axes : Dot(g, i, j) = IF i = j THEN <<4, 0>> ELSE <<0, 0>>
Psub(x, y) == <<x[1] - y[1], x[2] - y[2]>>
Det2(g) ==    \* determinant of 2g  (= 8 for a proper rotation)
  Padd(Padd(
    Pmul(g[1][1], Psub(Pmul(g[2][2], g[3][3]), Pmul(g[2][3], g[3][2]))),
    Pmul(g[1][2], Psub(Pmul(g[2][3], g[3][1]), Pmul(g[2][1], g[3][3])))),
    Pmul(g[1][3], Psub(Pmul(g[2][1], g[3][2]), Pmul(g[2][2], g[3][1]))))

ASSUME Len(G) = 60
ASSUME Cardinality({G[i] : i \in 1 .. 60}) = 60
ASSUME \A i \in 1 .. 60 : Orthogonal(G[i]) /\ Det2(G[i]) = <<8, 0>>

(* ------------------------------ the prefactor -------------------------- *)
Delta(a, b) == IF a = b THEN 1 ELSE 0
\* F4[1] = (v4.v3)(v2.v1), F4[2] = (v4.v2)(v3.v1), F4[3] = (v4.v1)(v3.v2)
F4(v) == << Delta(v[4], v[3]) * Delta(v[2], v[1]),
            Delta(v[4], v[2]) * Delta(v[3], v[1]),
            Delta(v[4], v[1]) * Delta(v[3], v[2]) >>
M4x30(i, j) == IF i = j THEN M4Diag ELSE 0 - 1
Pref30(e, d) ==
  LET fe == F4(e)  fn == F4(d)
      row(j) == fe[1] * M4x30(1, j) + fe[2] * M4x30(2, j) + fe[3] * M4x30(3, j)
  IN row(1) * fn[1] + row(2) * fn[2] + row(3) * fn[3]

(* -------------------------- the exact average -------------------------- *)
\* sum over the group of prod_k (2g)[e_k][d_k]      ( = 16 * 60 * average )
Term(e, d, n) == LET g == G[n] IN
  Pmul(Pmul(g[e[1]][d[1]], g[e[2]][d[2]]), Pmul(g[e[3]][d[3]], g[e[4]][d[4]]))
RECURSIVE RangeSum(_, _, _, _)
RangeSum(e, d, lo, hi) ==            \* balanced, so the recursion stays shallow
  IF lo = hi THEN Term(e, d, lo)
  ELSE LET mid == (lo + hi) \div 2
       IN Padd(RangeSum(e, d, lo, mid), RangeSum(e, d, mid + 1, hi))
GroupSum(e, d, n) == RangeSum(e, d, 1, n)

(* --------------------------------- machine ----------------------------- *)
\* root -> polarisations chosen -> dipoles chosen (leaves are checked)
VARIABLES ev, dv, phase
Tuples == [1 .. 4 -> Axes]
Init == ev = [k \in 1 .. 4 |-> 1] /\ dv = [k \in 1 .. 4 |-> 1] /\ phase = "root"
Next ==
  \/ phase = "root" /\ phase' = "e" /\ ev' \in Tuples /\ dv' = dv
  \/ phase = "e" /\ phase' = "leaf" /\ dv' \in Tuples /\ ev' = ev
Spec == Init /\ [][Next]_<<ev, dv, phase>>

\* 30 * sum_g prod (2g) = 16 * 60 * (30 * Pref)
PrefactorIsExactAverage ==
  phase = "leaf" =>
    LET s == GroupSum(ev, dv, 60) IN
    /\ s[2] = 0
    /\ 30 * s[1] = 960 * Pref30(ev, dv)
=============================================================================
