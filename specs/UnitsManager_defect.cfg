CONSTANTS
  EUnits = {"int", "1/cm", "nm"}
  LUnits = {"nm"}
  Routines = {"convert", "build_raw", "noop"}
  Raising = {"convert", "set_rwa", "noop"}
  MaxPool = 1
  BackupAt = "enter"
  MaxCtx = 2
  MaxSteps = 12
SPECIFICATION Spec
CONSTRAINT Bounded
INVARIANT CountFlagConsistent
INVARIANT CallerUnitsPreserved
INVARIANT ReturnsPreserveUnits
PROPERTY Restore
CHECK_DEADLOCK FALSE
