CONSTANTS
  Comps = {"a1", "b1", "h1", "a2", "v1", "c1"}
  MaxObjs = 4
  MaxLen = 4
  MaxSteps = 5
  Dispatch = "own"
  CheckFirst = FALSE
SPECIFICATION Spec
CONSTRAINT Bounded
INVARIANT DataIsSumOfComponents
INVARIANT ReorganisationEnergyAdditive
INVARIANT OneTemperature
PROPERTY RefusalChangesNothing
CHECK_DEADLOCK FALSE
