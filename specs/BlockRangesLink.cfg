CONSTANTS
  MaxSize = 8
  StartSet <- StartsSmall
  MaxLen = 40
  MaxLoops = 1
  TableFile = ""
  HonourStart = TRUE
INIT LinkInit
NEXT LinkNext
CHECK_DEADLOCK FALSE
