CONSTANTS
  Dim = 3
  LdMode = "dagger"
  DephMode = "conj"
  TransMode = "transpose"
SPECIFICATION Spec
INVARIANT TracePreserved
INVARIANT HermiticityPreserved
INVARIANT OperatorFormEqualsTensorForm
INVARIANT SecularClauses
INVARIANT TransformPreserves
INVARIANT TransformCovariant
INVARIANT DephaseOK
INVARIANT ExportTable
CHECK_DEADLOCK FALSE
