CONSTANTS
  EUnits = {"int"}
  LUnits = {"A"}
  Routines = {"noop"}
  Raising = {"noop"}
  MaxPool = 0
  BackupAt = "enter"
  MaxCtx = 0
  MaxSteps = 0
SPECIFICATION TraceSpec
INVARIANT Accepting
INVARIANT CountFlagConsistent
PROPERTY Restore
CHECK_DEADLOCK FALSE
