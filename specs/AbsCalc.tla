------------------------------- MODULE AbsCalc -------------------------------
(***************************************************************************)
(* State kept by AbsSpectrumCalculator between calls                        *)
(* (spectroscopy/abscalculator.py: __init__, bootstrap, calculate,         *)
(* _calculate_monomer / _calculate_aggregate).                              *)
(*                                                                         *)
(* Frequencies are counted in steps of the returned frequency axis.        *)
(* bootstrap(rwa) creates the frequency axis of the calculator from its    *)
(* time axis (centred at zero: first point -Half) and shifts it by rwa;    *)
(* calculate() evaluates the line shape relative to rwa, so a line with    *)
(* transition energy om is found Half + (om - rwa) points above the start  *)
(* of the axis (AbsMap.tla / AbsMapProof.tla), and hands the axis out with *)
(* the spectrum.  A user may bootstrap a calculator again (another rwa,    *)
(* another realisation of the system in a disorder loop) and calculate any *)
(* number of times.                                                        *)
(*                                                                         *)
(* LineOnItsEnergy: whatever the history of calls, the point of the        *)
(* returned axis at which the line sits carries the transition energy.     *)
(***************************************************************************)
EXTENDS Integers, TLC

CONSTANTS Half,          \* points of the returned axis below its centre
          Rwas,          \* rotating-wave frequencies a user may choose
          Oms,           \* transition energies (lines resolved in the window)
          MaxCalls,
          AxisAbsolute   \* TRUE: bootstrap creates the axis afresh and shifts
                         \*   it by rwa (the code); FALSE: the axis is created
                         \*   once and every bootstrap shifts it again
                         \*   (negative control)

VARIABLES axis0,     \* value carried by point 0 of the calculator's axis
          rwa,       \* rotating-wave frequency in use (-1: not bootstrapped)
          om,        \* transition energy of the system in the calculator
          peak,      \* axis value at the line maximum of the last spectrum
                     \*   (-1: none calculated yet)
          ncalls

vars == <<axis0, rwa, om, peak, ncalls>>

Init == /\ axis0 = 0 - Half /\ rwa = -1 /\ om \in Oms /\ peak = -1
        /\ ncalls = 0

\* (lines within three points of the edge of the window are not claimed)
Resolved(o, r) == o - r > 3 - Half /\ o - r < Half - 3

Bootstrap(r) ==
  /\ Resolved(om, r)
  /\ rwa' = r
  /\ axis0' = IF AxisAbsolute THEN r - Half ELSE axis0 + r
  /\ UNCHANGED <<om, peak>>
  /\ ncalls' = ncalls + 1

\* the system is replaced by another realisation (set_system / a new object in
\* a disorder loop); the calculator has to be bootstrapped again before use
NewSystem(o) ==
  /\ om' = o /\ rwa' = -1 /\ peak' = -1     \* (no spectrum of the new system yet)
  /\ UNCHANGED axis0
  /\ ncalls' = ncalls + 1

Calculate ==
  /\ rwa # -1
  /\ peak' = axis0 + Half + (om - rwa)
  /\ UNCHANGED <<axis0, rwa, om>>
  /\ ncalls' = ncalls + 1

Next == \/ \E r \in Rwas : Bootstrap(r)
        \/ \E o \in Oms : NewSystem(o)
        \/ Calculate

Spec == Init /\ [][Next]_vars
Bounded == ncalls < MaxCalls

LineOnItsEnergy == peak # -1 /\ rwa # -1 => peak = om
AxisFollowsRwa == rwa # -1 => axis0 = rwa - Half
=============================================================================
